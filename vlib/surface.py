"""Residual API surface: public operations that have no Coq model op (printers, size queries, trait plumbing, Encoding's own
impls, VariableBaseMSM, Valid::check, zeroize, ...).  Each gets an implementation-side predicate derived from the property it
belongs to, evaluated on every run (these are tests, not theorems: they only widen the search for a failing input and make sure
that no public entry point is left unexercised — `tools/op_audit.sh` lists harness ops that no check runs)."""
from .core import *
from . import harness, gen, pyref
from .gen import Q, R, P
from .curve import E, Af, parseE, hexb, IDENT, T2REP, t2_translate, rescale, neg_pt

MOD = {'fq': Q, 'fr': R, 'fp': P}; N8 = {'fq': 32, 'fr': 32, 'fp': 48}

def _fail(fails, cls, l, o, why, build='ark'):
    fails.append(('%s returns %s — %s (build %s)' % (l[:110], o[:90], why, build), {'build': build, 'script': [l], 'output': [o]}, {'class': cls, 'build': build, 'op': l.split()[0]}))

def c05_msm(ctx, pool, scale):
    """VariableBaseMSM::msm / msm_unchecked = sum of the products; length mismatch is an error carrying the shorter length"""
    rng = ctx.rng; lines = []; exp = []
    sc = [0, 1, 2, R - 1, R - 2, (R + 1) // 2, 2**64, 2**128 + 1] + [gen.rand_field(rng, R) for _ in range(4 * scale)]
    for n in list(range(0, 12)) + [16, 17, 33]:
        ps = [pool.pick(rng) for _ in range(n)]; ks = [rng.choice(sc) for _ in range(n)]
        acc = (0, 1)
        for k, p in zip(ks, ps): acc = pyref.ed_add(acc, pyref.smul(k, pyref.aff(p)))
        a = ';'.join(Af(pyref.aff(p)) for p in ps) if n else '-'; k = ';'.join('%x' % x for x in ks) if n else '-'
        lines.append('el.msm %s %s' % (a, k)); exp.append(acc)
        lines.append('el.msm_unchecked %s %s' % (a, k)); exp.append(acc)
    out = harness.run_script('ark', lines); fails = []
    for l, o, e in zip(lines, out, exp):
        t = o[3:] if o.startswith('OK ') else o
        try: c = parseE(t); ok = pyref.wf(c) and pyref.coset_eq(pyref.aff(c), e)
        except Exception: ok = False
        if not ok: _fail(fails, 'msm', l, o, 'the sum of the individual products is %s' % (e,))
    return len(lines), fails

def c06_conversions(ctx, pool, scale):
    """Valid::check accepts what the API hands out; cofactor maps, reference conversions and coordinate getters stay inside the group"""
    rng = ctx.rng; lines = []; meta = []
    for c in [IDENT, T2REP, rescale(T2REP, 7)] + [pool.pick(rng) for _ in range(6 * scale)]:
        a = pyref.aff(c)
        for op in ('el.check', 'el.to_affine_ref'): lines.append('%s %s' % (op, E(c))); meta.append((op, c))
        for op in ('af.check', 'af.mul_by_cofactor', 'af.mul_by_cofactor_inv', 'af.to_element_ref', 'af.x', 'af.y'): lines.append('%s %s' % (op, Af(a))); meta.append((op, c))
    out = harness.run_script('ark', lines); fails = []
    for l, o, (op, c) in zip(lines, out, meta):
        a = pyref.aff(c); ident = a[0] % Q == 0
        if op in ('el.check', 'af.check'):
            if o != 'OK': _fail(fails, 'check', l, o, 'Valid::check must accept a valid element')
        elif op in ('af.x', 'af.y'):
            want = 'NONE' if ident else 'SOME %x' % (a[0] if op == 'af.x' else a[1])
            if o != want: _fail(fails, 'coords', l, o, 'expected %s (both identity representatives have no coordinates)' % want)
        else:
            try:
                v = parseE(o); v = v if len(v) == 4 else [v[0], v[1], 1, v[0] * v[1] % Q]
                ok = pyref.valid(v) and pyref.coset_eq(pyref.aff(v), a)
            except Exception: ok = False
            if not ok: _fail(fails, 'conversion', l, o, 'must be the same element (the cofactor of the group is 1)')
    return len(lines), fails

def c08_printers(ctx, pool, scale):
    """Debug / Display of equal elements are equal and show the canonical encoding"""
    rng = ctx.rng; lines = []; meta = []
    for i, c in enumerate([IDENT] + [pool.pick(rng) for _ in range(5 * scale)]):
        for rep in [c, t2_translate(c), rescale(c, rng.below(Q - 2) + 2)]:
            for op in ('el.debug', 'el.display'): lines.append('%s %s' % (op, E(rep))); meta.append((i, op, c))
            if rep[2] % Q == 1:
                for op in ('af.debug', 'af.display'): lines.append('%s %s' % (op, Af(pyref.aff(rep)))); meta.append((i, op, c))
    out = harness.run_script('ark', lines); fails = []; first = {}
    for l, o, (i, op, c) in zip(lines, out, meta):
        spec = pyref.encode_spec(pyref.aff(c))
        name = 'Element' if op.startswith('el.') else 'AffinePoint'
        want = '"decaf377::%s(%s)"' % (name, hexb(spec)) if spec is not None else None
        if want is not None and o != want: _fail(fails, 'printer', l, o, 'expected %s' % want)
        k = (i, op)
        if k in first and first[k] != o: _fail(fails, 'printer_rep', l, o, 'another representation of the same element prints %s' % first[k])
        first.setdefault(k, o)
    return len(lines), fails

def c02_encoding_type(ctx, pool, scale):
    """the Encoding wrapper: conversions are the identity on the 32 bytes, Default is zero, stream deserialisation needs 32 bytes"""
    rng = ctx.rng; lines = []; fails = []
    bs = [bytes(32), (8).to_bytes(32, 'little'), bytes([255] * 32), rng.bytes(32)]
    for b in bs:
        for op in ('enc.ser', 'enc.from_arr', 'enc.into_arr', 'enc.deser', 'enc.debug'): lines.append('%s %s' % (op, b.hex()))
    for n in (0, 1, 31, 33, 64):
        b = rng.bytes(n); lines.append('enc.deser %s' % (b.hex() if n else '-'))
    lines.append('enc.default')
    out = harness.run_script('ark', lines)
    for l, o in zip(lines, out):
        t = l.split(); op = t[0]; arg = t[1] if len(t) > 1 else ''
        if op == 'enc.default': want = '00' * 32
        elif op == 'enc.debug': want = '"decaf377::Encoding(%s)"' % arg
        elif op in ('enc.from_arr', 'enc.into_arr'): want = arg
        elif op == 'enc.ser': want = 'OK ' + arg
        else:
            n = 0 if arg == '-' else len(arg) // 2
            want = ('OK ' + arg[:64]) if n >= 32 else 'ERR Ser:IoError'
        if o != want: _fail(fails, 'encoding_type', l, o, 'expected %s' % want)
    return len(lines), fails

def c11_field_plumbing(ctx, scale):
    """printers, uncompressed (= compressed) serialisation, size, trait plumbing and inherent 0/1 constants of the three fields, both builds"""
    rng = ctx.rng; fails = []; n = 0
    for b in ('ark', 'min'):
        ops = set(harness.list_ops(b)); lines = []
        for f in ('fq', 'fr', 'fp'):
            m = MOD[f]; n8 = N8[f]
            xs = [0, 1, 5, m - 1, (m - 1) // 2, 2**64, gen.rand_field(rng, m)] + [gen.rand_field(rng, m) for _ in range(2 * scale)]
            for x in xs:
                for o in ('debug', 'zeroize', 'ark.display', 'ark.ser_uncompressed', 'ark.serialized_size', 'ark.from_base_prime_field_elems'):
                    if '%s.%s' % (f, o) in ops: lines.append('%s.%s %x' % (f, o, x))
                for k in (0, 1, 2, 5):
                    if f + '.ark.frobenius_map' in ops: lines.append('%s.ark.frobenius_map %x %x' % (f, x, k))
                if f + '.ark.deser_uncompressed' in ops:
                    lines.append('%s.ark.deser_uncompressed %s' % (f, x.to_bytes(n8, 'little').hex()))
            for v in (m, m + 1, 2**(8 * n8) - 1):
                if f + '.ark.deser_uncompressed' in ops: lines.append('%s.ark.deser_uncompressed %s' % (f, v.to_bytes(n8, 'little').hex()))
            for o in ('const.ONE', 'const.ZERO', 'const.MINUS_ONE', 'ark.characteristic', 'ark.extension_degree', 'ark.const.MODULUS', 'ark.const.ONE', 'ark.const.ZERO', 'ark.const.MODULUS_BIT_SIZE'):
                if '%s.%s' % (f, o) in ops: lines.append('%s.%s' % (f, o))
            if f + '.ark.from_base_prime_field_elems' in ops:
                lines.append('%s.ark.from_base_prime_field_elems -' % f); lines.append('%s.ark.from_base_prime_field_elems 5;6' % f)
            if f + '.ark.rand' in ops:
                # UniformRand: rejection sampling of masked n8-byte candidates.  Short random streams, and a stuck generator (all-ones words or one
                # repeated word for 300 candidates, then the harness's replay generator): the result is the first candidate below the modulus
                streams = [b'', bytes(n8), bytes([255] * n8 * 300), (m.to_bytes(n8, 'little')) * 300, ((m - 1).to_bytes(n8, 'little'))] + [rng.bytes(rng.below(3 * n8)) for _ in range(3 + scale)]
                for st in streams: lines.append('%s.ark.rand %s' % (f, st.hex() if st else '-'))
            if f + '.from_montgomery_limbs' in ops:
                for _ in range(3):
                    L = gen.rand_field(rng, m); lines.append('%s.from_montgomery_limbs %s' % (f, ','.join('%x' % ((L >> (64 * i)) & (2**64 - 1)) for i in range(n8 // 8))))
        out = harness.run_script(b, lines); n += len(lines)
        for l, o in zip(lines, out):
            t = l.split(); f, _, op = t[0].partition('.'); m = MOD[f]; n8 = N8[f]
            a = [int(x, 16) for x in t[1:]] if len(t) > 1 and all(c in '0123456789abcdef' for x in t[1:] for c in x) else None
            limbs = lambda v: ','.join('%x' % ((v >> (64 * i)) & (2**64 - 1)) for i in range(n8 // 8))
            want = None
            if op == 'debug': want = '"%s(0x%s)"' % (f.capitalize(), '%0*x' % (2 * n8, a[0]))
            elif op == 'zeroize': want = '0'
            elif op == 'ark.display': want = '"%s"' % ('' if a[0] == 0 else str(a[0]))     # arkworks prints zero as the empty string
            elif op == 'ark.ser_uncompressed': want = a[0].to_bytes(n8, 'little').hex()
            elif op == 'ark.serialized_size': want = str(n8)
            elif op == 'ark.frobenius_map': want = '%x' % a[0]
            elif op == 'ark.from_base_prime_field_elems':
                want = ('SOME %x' % a[0]) if a is not None and len(a) == 1 else 'NONE'
            elif op == 'ark.deser_uncompressed':
                v = int.from_bytes(bytes.fromhex(t[1]), 'little'); want = ('OK %x' % v) if v < m else 'ERR Ser:InvalidData'
            elif op in ('const.ONE', 'ark.const.ONE'): want = '1'
            elif op in ('const.ZERO', 'ark.const.ZERO'): want = '0'
            elif op == 'const.MINUS_ONE': want = '%x' % (m - 1)
            elif op in ('ark.characteristic', 'ark.const.MODULUS'): want = limbs(m)
            elif op == 'ark.extension_degree': want = '1'
            elif op == 'ark.const.MODULUS_BIT_SIZE': want = '%x' % m.bit_length()
            elif op == 'ark.rand':
                buf = bytes.fromhex(t[1]) if t[1] != '-' else b''
                st = {'pos': 0, 'x': 0x9E3779B97F4A7C15 ^ len(buf)}
                def nxt():
                    if st['pos'] < len(buf): st['pos'] += 1; return buf[st['pos'] - 1]
                    x = st['x']; x ^= (x << 13) & (2**64 - 1); x ^= x >> 7; x ^= (x << 17) & (2**64 - 1); st['x'] = x; return x & 0xff
                for _ in range(100000):
                    v = int.from_bytes(bytes(nxt() for _ in range(n8)), 'little') & ((1 << m.bit_length()) - 1)
                    if v < m: want = '%x' % v; break
            elif op == 'from_montgomery_limbs':
                L = sum(int(x, 16) << (64 * i) for i, x in enumerate(t[1].split(','))); want = '%x' % (L * pow(1 << (8 * n8), -1, m) % m)
            if want is not None and o != want and o != 'UNSUPPORTED':
                # tolerate decimal/hex spelling of small numbers
                if op in ('ark.const.MODULUS_BIT_SIZE',) and o == str(m.bit_length()): continue
                _fail(fails, 'field_plumbing', l, o, 'expected %s' % want, b)
    return n, fails

def c13_constants(ctx, pool):
    """CurveVar::zero / constant: no constraint, value = the element"""
    lines = ['r1.zero'] + ['r1.constant %s' % E(c) for c in [IDENT, T2REP] + pool.base[:3]]
    out = harness.run_script('ark', lines); fails = []
    for l, o in zip(lines, out):
        d = dict(tok.split('=', 1) for tok in o.split() if '=' in tok)
        want = (0, 1) if l == 'r1.zero' else pyref.aff(parseE(l.split()[1]))
        try: v = tuple(int(x, 16) for x in d.get('raw', d.get('val', '')).split(','))
        except ValueError: v = None
        if d.get('sat') != '1' or d.get('ncons') != '0' or v is None or not pyref.coset_eq(v, want):
            _fail(fails, 'r1_constant', l, o, 'expected the constant %s with no constraint' % (want,))
    return len(lines), fails

def c04_min_select(ctx, pool, scale):
    """minimal build: ConditionallySelectable for Element returns exactly the chosen operand (coordinates unchanged)"""
    rng = ctx.rng; lines = []; exp = []
    for _ in range(6 * scale):
        a = pool.pick(rng); b = pool.pick(rng)
        for ch in (0, 1): lines.append('el.select %s %s %d' % (E(a), E(b), ch)); exp.append(b if ch else a)
    out = harness.run_script('min', lines); fails = []
    for l, o, e in zip(lines, out, exp):
        if o != E(e): _fail(fails, 'select', l, o, 'expected the chosen operand %s' % E(e), 'min')
    return len(lines), fails
