"""Coq side: regenerate Generated/*, incremental make, Print Assumptions, hygiene grep."""
import os, re, glob, time
from .core import *

FORBIDDEN = re.compile(r'\b(Admitted|admit|Axiom|Axioms|Parameter|Parameters|Conjecture|Hypothesis|Hypotheses|Variable|Variables|Context)\b|Unset\s+Guard|bypass_check|Admit\s+Obligations|-type-in-type|-impredicative-set|Unset\s+Universe\s+Checking|Unset\s+Positivity')
ALLOWED_AXIOMS = set()   # none intended; stdlib axioms that show up get listed here *and* in DESIGN.md

TRANSLATORS = [  # (script, output argument, files it writes, fatal for everyone?)
    ('consts.py', os.path.join(COQ, 'Generated', 'Consts.v'), ['Generated/Consts.v'], True),
    ('gadget_shape.py', os.path.join(COQ, 'Generated', 'GadgetShape.v'), ['Generated/GadgetShape.v'], False),
    ('rs2v.py', os.path.join(COQ, 'Generated'), ['Generated/Curve.v'], False),
    ('rs2v_gadgets.py', os.path.join(COQ, 'Generated'), ['Generated/GadgetsGen.v'], False),
    ('rs2v_dep.py', os.path.join(COQ, 'Generated'), ['Generated/Dep.v'], False),
    ('rs2v_fiat.py', os.path.join(COQ, 'Generated'), ['Generated/FiatFq.v', 'Generated/FiatFr.v', 'Generated/FiatFp.v'], False),
]
LAST_TRANSLATION_ERRORS = []

def regenerate():
    """Run every translator; files are rewritten only when their content changes.  A function that a translator cannot
    render is left out of the generated file (a comment marks it): only the theorems that depend on it then fail to check,
    so a property that does not depend on the changed function is not alarmed.  A translator that crashes has its output
    removed (no stale model can be used).  Returns (ok, log); ok=False only when the constants cannot be extracted."""
    out = []; LAST_TRANSLATION_ERRORS.clear()
    for script, arg, outs, fatal in TRANSLATORS:
        sp = os.path.join(VERIF, 'translator', script)
        if not os.path.exists(sp): continue
        rc, o = run(['python3', sp, arg], timeout=300)
        out.append(o)
        errs = [l for l in o.split('\n') if l.startswith('TRANSLATION-ERROR')]
        if rc != 0 and not errs:
            errs = ['TRANSLATION-ERROR %s crashed: %s' % (script, o.strip().split('\n')[-1][:300])]
            for f in outs:
                fp = os.path.join(COQ, f)
                if os.path.exists(fp): os.remove(fp)
        LAST_TRANSLATION_ERRORS.extend(errs)
        if rc != 0 and fatal: return False, '\n'.join(out)
    return True, '\n'.join(out)

def ensure_makefile():
    mk = os.path.join(COQ, 'Makefile'); cp = os.path.join(COQ, '_CoqProject')
    if (not os.path.exists(mk)) or os.path.getmtime(mk) < os.path.getmtime(cp):
        rc, o = run(['coq_makefile', '-f', '_CoqProject', '-o', 'Makefile'], cwd=COQ, timeout=120)
        if rc != 0: raise RuntimeError('coq_makefile failed: ' + o)

def make(targets, timeout=3000):
    """make the given .vo targets (paths relative to coq/).  Returns (ok, log, failing_file)."""
    with Lock('coq'):
        ensure_makefile()
        rc, o = run(['make', '-j%d' % NCPU] + list(targets), cwd=COQ, timeout=timeout)
    bad = None
    m = re.search(r'File "\./([^"]+)", line (\d+)', o)
    if m: bad = m.group(1)
    return rc == 0, o, bad

def section_scan(path):
    """Hygiene: forbidden vernacular anywhere; Variable/Hypothesis/Context only inside a Section."""
    probs = []
    txt = open(path).read()
    txt = re.sub(r'\(\*.*?\*\)', lambda m: ' ' * len(m.group(0)), txt, flags=re.S)
    depth = 0
    for ln, line in enumerate(txt.split('\n'), 1):
        if re.match(r'\s*Section\b', line): depth += 1
        if re.match(r'\s*End\b', line) and depth > 0: depth -= 1
        for m in FORBIDDEN.finditer(line):
            w = m.group(0)
            if w.split()[0] in ('Variable', 'Variables', 'Hypothesis', 'Hypotheses', 'Context') and depth > 0: continue
            probs.append('%s:%d: %s' % (os.path.relpath(path, COQ), ln, w))
    return probs

def hygiene():
    probs = []
    for f in glob.glob(os.path.join(COQ, '**', '*.v'), recursive=True):
        if '/.tmp/' in f: continue
        probs += section_scan(f)
    return probs

def print_assumptions(module, theorems, timeout=600):
    """Returns {theorem: [axioms]} by compiling a scratch file that imports the compiled module."""
    tmpd = os.path.join(CACHE, 'pa'); os.makedirs(tmpd, exist_ok=True)
    f = os.path.join(tmpd, 'PA_%s.v' % module.replace('.', '_'))
    with open(f, 'w') as fh:
        fh.write('From D377 Require Import %s.\n' % module)
        for t in theorems:
            fh.write('Goal True. idtac "@@BEGIN %s". exact I. Qed.\nPrint Assumptions %s.\n' % (t, t))
        fh.write('Goal True. idtac "@@END". exact I. Qed.\n')
    rc, o = run(['coqc', '-Q', COQ, 'D377', f], cwd=tmpd, timeout=timeout)
    res = {}
    if rc != 0: return None, o
    cur = None
    for line in o.split('\n'):
        m = re.match(r'@@BEGIN (\S+)', line)
        if m: cur = m.group(1); res[cur] = []; continue
        if line.startswith('@@END'): cur = None; continue
        if cur is None: continue
        if 'Closed under the global context' in line or line.strip() in ('', 'Axioms:') : continue
        m = re.match(r'^(\S+)\s*:', line)
        if m and not line.startswith(' '): res[cur].append(m.group(1))
    return res, o

def theorems_in(relpaths):
    names = []
    for rp in relpaths:
        p = os.path.join(COQ, rp)
        if not os.path.exists(p): continue
        txt = re.sub(r'\(\*.*?\*\)', '', open(p).read(), flags=re.S)
        names += re.findall(r'^\s*(?:Theorem|Lemma|Corollary|Example)\s+([A-Za-z0-9_\']+)', txt, flags=re.M)
    return names

def eval_file(body, name='eval', timeout=1200, imports=()):
    """Compile a scratch .v (with vm_compute Evals) against the built tree; returns (rc, output)."""
    tmpd = os.path.join(CACHE, 'eval'); os.makedirs(tmpd, exist_ok=True)
    f = os.path.join(tmpd, name + '.v')
    open(f, 'w').write(body)
    return run(['coqc', '-noglob', '-Q', COQ, 'D377', f], cwd=tmpd, timeout=timeout)

def proof_stage(ctx, prop_module, vo_targets, prop_files, timeout=3000):
    """Common proof stage: regenerate, make, hygiene, Print Assumptions.  Returns dict with status."""
    st = {'regen_ok': True, 'make_ok': False, 'make_log': '', 'bad_file': None, 'hygiene': [], 'axioms': {}}
    ok, o = regenerate()
    st['regen_ok'] = ok; st['regen_log'] = o; st['translation_errors'] = list(LAST_TRANSLATION_ERRORS)
    if not ok: return st
    ok, o, bad = make(vo_targets, timeout=timeout)
    st['make_ok'], st['make_log'], st['bad_file'] = ok, o[-6000:], bad
    st['hygiene'] = hygiene()
    thms = theorems_in(prop_files)
    ctx.cov['obligations'] = len(thms)
    ctx.cov['checker_cmd'] = 'cd /verif/coq && coq_makefile -f _CoqProject -o Makefile && make -j%d %s' % (NCPU, ' '.join(vo_targets))
    if ok:
        top = theorems_in([prop_files[0]])
        res, o2 = print_assumptions(prop_module, top)
        if res is None:
            st['make_ok'] = False; st['make_log'] += '\nPrint Assumptions failed:\n' + o2[-3000:]
        else:
            st['axioms'] = res
            ctx.cov['discharged'] = len(thms)
            allax = sorted({a for v in res.values() for a in v})
            ctx.cov['trusted_base'] = ['Coq 8.16.1 kernel incl. vm_compute (no native_compute)',
                                       'axioms reported by Print Assumptions: ' + (', '.join(allax) if allax else 'none (Closed under the global context)')]
            ctx.cov['samples'] = ctx.cov['samples'] + [{'theorem': t, 'axioms': res[t]} for t in top[:12]]
    return st
