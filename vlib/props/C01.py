"""C01 — group-element encoding round-trips in both directions."""
from ..core import *
from .. import harness, gen, pyref
from ..curve import *

VO = ['Props/C01.vo', 'Tie/SqrtArk.vo']      # decode/encode call the table-driven square root: its tie to the source is part of the obligation
FILES = ['Props/C01.v', 'Proofs/Codec.v', 'Proofs/Reach.v', 'Proofs/ByteLevel.v', 'Proofs/Final.v', 'Tie/Curve.v', 'Tie/Loops.v', 'Proofs/Instance.v']
BUILDS = ('ark', 'min')
DEC_OPS = {'ark': ['el.dec', 'el.dec.decompress', 'el.dec.tf_enc', 'el.dec.tf_encref', 'el.dec.tf_arr', 'el.dec.tf_slice', 'el.dec.enc_tf_slice', 'el.deser'],
           'min': ['el.dec', 'el.dec.tf_enc', 'el.dec.tf_encref', 'el.dec.tf_arr', 'el.dec.tf_slice', 'el.dec.enc_tf_slice']}
ENC_OPS = {'ark': ['el.enc', 'el.enc.from_elem', 'el.enc.from_ref', 'el.enc.arr_from', 'el.ser'], 'min': ['el.enc', 'el.enc.from_elem', 'el.enc.from_ref', 'el.enc.arr_from']}

def elements(ctx, build, scale):
    pool = Pool(build, ctx.rng.fork('pool-' + build), n_rand=10 * scale)
    els = []
    for c in pool.all:
        els.append(c)
        els += pool.reps(c, ctx.rng)
    return pool, els

def build_scripts(ctx, scale):
    scripts = {}
    for b in BUILDS:
        pool, els = elements(ctx, b, scale)
        strings = near_miss_strings(ctx.rng, pool.encodable, n_flip=8 * scale) + [ctx.rng.bits(256) for _ in range(40 * scale)] + \
                  [ctx.rng.bits(253) & ~1 for _ in range(80 * scale)]
        lines = ['el.dec %s' % hexb(s) for s in strings]
        # every decoding entry point (conversions from arrays / slices / Encoding, stream deserialisers) on the structured strings
        for s in strings[:90]:
            for op in DEC_OPS[b][1:]: lines.append('%s %s' % (op, hexb(s)))
        lines += ['el.enc %s' % E(c) for c in els] + ['el.enc.to_field %s' % E(c) for c in els[:40 * scale]]
        scripts[b] = lines
    return scripts

def search(ctx, scale, hints):
    fails = []
    for b in BUILDS:
        pool, els = elements(ctx, b, scale)
        # (1) re-encoding any successfully decoded string reproduces it
        strings = near_miss_strings(ctx.rng, pool.encodable, n_flip=16 * scale) + [ctx.rng.bits(253) & ~1 for _ in range(200 * scale)]
        for h in hints:
            t = h['line'].split()
            if t[0].startswith('el.dec') and len(t) > 1 and len(t[1]) == 64: strings.append(int.from_bytes(bytes.fromhex(t[1]), 'little'))
            if t[0].startswith('el.enc') and len(t) > 1 and t[1].count(',') == 3: els.append(parseE(t[1]))
        lines = []; pairs = []
        for k, s in enumerate(strings):
            # through every pair (decoding entry point, encoding entry point) in turn
            dop = DEC_OPS[b][k % len(DEC_OPS[b])] if k >= 40 else 'el.dec'; eop = ENC_OPS[b][(k // 3) % len(ENC_OPS[b])] if k >= 40 else 'el.enc'
            lines.append('%s %s' % (dop, hexb(s))); lines.append('%s $%d' % (eop, len(lines) - 1)); pairs.append(s)
        for s in strings[:60]:
            for dop in DEC_OPS[b][1:]:
                lines.append('%s %s' % (dop, hexb(s))); lines.append('el.enc $%d' % (len(lines) - 1)); pairs.append(s)
        out = harness.run_script(b, lines)
        out = [o[3:] if o.startswith('OK ') and len(o) == 67 else o for o in out]
        strings = pairs
        for i, s in enumerate(strings):
            d, e = out[2 * i], out[2 * i + 1]
            if d.startswith('OK') and e != hexb(s):
                fails.append(('%s of %s succeeds but re-encoding (%s) gives %s (build %s)' % (lines[2 * i].split()[0], hexb(s), lines[2 * i + 1].split()[0], e, b),
                              {'build': b, 'script': lines[2 * i:2 * i + 2], 'output': [d, e]}, {'dir': 'enc_dec', 'build': b}))
            if d == 'PANIC':
                fails.append(('decoding %s panics (build %s)' % (hexb(s), b), {'build': b, 'script': [lines[2 * i]], 'output': [d]}, {'dir': 'panic', 'build': b}))
        # (2) decoding the encoding of any element yields an element equal to it
        lines = []
        for c in els:
            lines.append('el.enc %s' % E(c))
        out = harness.run_script(b, lines)
        l2 = []
        for c, o in zip(els, out):
            l2.append('el.dec %s' % o); l2.append('el.eq %s $%d' % (E(c), len(l2) - 1))
        out2 = harness.run_script(b, l2)
        for i, c in enumerate(els):
            d, q = out2[2 * i], out2[2 * i + 1]
            if not d.startswith('OK') or q != '1':
                fails.append(('element %s encodes to %s whose decoding is %s / equality %s (build %s)' % (E(c), out[i], d, q, b),
                              {'build': b, 'script': ['el.enc ' + E(c), l2[2 * i], l2[2 * i + 1]], 'output': [out[i], d, q]}, {'dir': 'dec_enc', 'build': b}))
    return fails

def run_check(ctx):
    run_property(ctx, 'Props.C01', VO, FILES, build_scripts, search, 'C01 (encoding round trip) is no longer shown to hold')
