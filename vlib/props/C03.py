"""C03 — encoding depends only on the group element and equals the specified encoding."""
from ..core import *
from .. import harness, gen, pyref
from ..curve import *

VO = ['Props/C03.vo', 'Tie/SqrtArk.vo']      # decode/encode call the table-driven square root: its tie to the source is part of the obligation
FILES = ['Props/C03.v', 'Proofs/Codec.v', 'Proofs/Projective.v', 'Proofs/ByteLevel.v', 'Proofs/Final.v', 'Tie/Curve.v', 'Proofs/Instance.v']
ENC = {'ark': ['el.enc', 'el.enc.from_elem', 'el.enc.from_ref', 'el.enc.arr_from', 'el.ser', 'el.ser_uncompressed', 'el.enc.to_field'],
       'min': ['el.enc', 'el.enc.from_elem', 'el.enc.from_ref', 'el.enc.arr_from', 'el.enc.to_field']}

def families(ctx, build, scale):
    pool = Pool(build, ctx.rng.fork('pool-' + build), n_rand=8 * scale)
    fam = []
    for c in pool.all:
        fam.append([c] + pool.reps(c, ctx.rng))
    return pool, fam

def build_scripts(ctx, scale):
    scripts = {}
    for b in ('ark', 'min'):
        pool, fam = families(ctx, b, scale); lines = []
        for f in fam:
            for c in f:
                for op in ENC[b][:1] + [ctx.rng.choice(ENC[b])]:
                    lines.append('%s %s' % (op, E(c)))
        if b == 'ark':
            for f in fam[:30 * scale]:
                lines.append('el.to_affine %s' % E(f[0])); lines.append('af.ser %s' % Af(pyref.aff(f[0]))); lines.append('af.ser_uncompressed %s' % Af(pyref.aff(f[0])))
        scripts[b] = lines
    return scripts

def search(ctx, scale, hints):
    fails = []
    for b in ('ark', 'min'):
        pool, fam = families(ctx, b, scale)
        for h in hints:
            t = h['line'].split()
            if len(t) > 1 and t[1].count(',') == 3:
                c = parseE(t[1])
                if pyref.wf(c): fam.append([c] + pool.reps(c, ctx.rng))
        lines = []; meta = []
        # every byte-producing encoder / serialiser (every serialisation mode) on every representative
        bops = (['el.enc', 'el.ser', 'el.ser_uncompressed', 'el.enc.from_elem', 'el.enc.from_ref', 'el.enc.arr_from'] if b == 'ark'
                else ['el.enc', 'el.enc.from_elem', 'el.enc.from_ref', 'el.enc.arr_from'])
        for i, f in enumerate(fam):
            for c in f:
                for k, op in enumerate(bops):
                    if k and i >= 40: continue
                    lines.append('%s %s' % (op, E(c))); meta.append((i, c))
        out = harness.run_script(b, lines)
        out = [o[3:] if o.startswith('OK ') else o for o in out]
        first = {}
        for (i, c), o in zip(meta, out):
            spec = pyref.encode_spec(pyref.aff(c))
            if spec is not None and pyref.valid(c) and o != hexb(spec):
                fails.append(('encoding of %s is %s, the specification gives %s (build %s)' % (E(c), o, hexb(spec), b),
                              {'build': b, 'script': ['el.enc ' + E(c)], 'output': [o], 'spec': hexb(spec)}, {'class': 'not_spec', 'build': b}))
            if i in first and first[i][1] != o:
                fails.append(('two representatives of one element encode differently: %s -> %s, %s -> %s (build %s)' % (E(first[i][0]), first[i][1], E(c), o, b),
                              {'build': b, 'script': ['el.enc ' + E(first[i][0]), 'el.enc ' + E(c)], 'output': [first[i][1], o]}, {'class': 'rep_dependent', 'build': b}))
            first.setdefault(i, (c, o))
            if len(o) == 64 and bytes.fromhex(o)[31] >> 5:
                fails.append(('encoding %s has high bits set' % o, {'build': b, 'script': ['el.enc ' + E(c)], 'output': [o]}, {'class': 'high_bits', 'build': b}))
        # unequal elements encode differently
        encs = {}
        for i, (c, o) in first.items():
            a = pyref.aff(c); key = min(a, ((-a[0]) % Q, (-a[1]) % Q))
            if o in encs and encs[o] != key:
                fails.append(('two different elements share the encoding %s (build %s)' % (o, b), {'build': b, 'elements': [E(c)], 'encoding': o}, {'class': 'collision', 'build': b}))
            encs[o] = key
    return fails

def always(ctx, scale):
    """the size query agrees with what the writers emit: 32 bytes for every element and affine point (ark build)"""
    pool = Pool('ark', ctx.rng.fork('sizes'), n_rand=2); lines = []; fails = []
    for c in [IDENT, T2REP] + pool.base[:2] + pool.derived[:2]:
        if not pyref.valid(c): continue
        lines += ['el.serialized_size %s' % E(c), 'el.ser %s' % E(c), 'af.serialized_size %s' % Af(pyref.aff(c)), 'af.ser %s' % Af(pyref.aff(c))]
    out = harness.run_script('ark', lines)
    for j in range(0, len(lines), 2):
        size, ser = out[j], out[j + 1]
        n = len(ser.split()[-1]) // 2 if ser.split() and ser.split()[-1] != '-' else 0
        if size != '32' or n != 32:
            fails.append(('%s reports %s bytes, the writer emitted %d (32 expected)' % (lines[j].split()[0], size, n), {'build': 'ark', 'script': lines[j:j + 2], 'output': out[j:j + 2]}, {'class': 'size', 'op': lines[j].split()[0]}))
    # the bytes do not depend on how the sink accepts them: writers that take 1, 5 or 31 bytes per call receive the same 32 bytes,
    # and a destination that is too short is an error, never a silent truncation (seed C03n)
    dl = []
    for c in [IDENT, T2REP] + pool.base[:3] + pool.derived[:3]:
        if not pyref.valid(c): continue
        dl += ['el.ser %s' % E(c), 'el.ser.drip %s' % E(c), 'af.ser %s' % Af(pyref.aff(c)), 'af.ser.drip %s' % Af(pyref.aff(c))]
    dout = harness.run_script('ark', dl)
    encl = []
    for j in range(0, len(dl), 2):
        ser = dout[j].split()[-1] if dout[j].split() else ''
        got = dout[j + 1].split()[-1] if dout[j + 1].split() else ''
        if ser not in ('', '-'): encl += ['enc.ser %s' % ser, 'enc.ser.drip %s' % ser]
        if got != ser * 3 + '01':
            fails.append(('%s: through short-writing sinks the writer emitted %s, expected three copies of %s and an error for a 16-byte destination' % (dl[j + 1].split()[0], got, ser),
                          {'build': 'ark', 'script': dl[j:j + 2], 'output': dout[j:j + 2]}, {'class': 'short_write', 'op': dl[j + 1].split()[0]}))
    eout = harness.run_script('ark', encl)
    for j in range(0, len(encl), 2):
        ser = eout[j].split()[-1] if eout[j].split() else ''
        got = eout[j + 1].split()[-1] if eout[j + 1].split() else ''
        if got != ser * 3 + '01':
            fails.append(('enc.ser.drip: through short-writing sinks the writer emitted %s, expected three copies of %s and an error for a 16-byte destination' % (got, ser),
                          {'build': 'ark', 'script': encl[j:j + 2], 'output': eout[j:j + 2]}, {'class': 'short_write', 'op': 'enc.ser.drip'}))
    return len(lines) + len(dl) + len(encl), fails

def run_check(ctx):
    run_property(ctx, 'Props.C03', VO, FILES, build_scripts, search, 'C03 (canonical encoding) is no longer shown to hold', always=always)
