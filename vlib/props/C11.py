"""C11 — field-element encodings and conversions are canonical and consistent."""
from ..core import *
from .. import fieldcorr as fc
from .C10 import run_generic

VO = ['Props/C11.vo']
FILES = ['Props/C11.v', 'Proofs/FieldLemmas.v', 'Proofs/BytesLemmas.v']

def predicate_search11(ctx, build, lines, hout):
    """property predicate on the implementation, in plain Python integer arithmetic"""
    fails = []
    for l, o in zip(lines, hout):
        t = l.split(); f, _, op = t[0].partition('.')
        if f not in fc.MOD or o == 'UNSUPPORTED': continue
        m = fc.MOD[f]; n8 = fc.N8[f]; exp = None
        try:
            if op in ('from_le_bytes_mod_order', 'ark.from_le_bytes_mod_order', 'ark.from_random_bytes'):
                b = bytes.fromhex(t[1]) if t[1] != '-' else b''
                exp = ('SOME ' if op.endswith('random_bytes') else '') + '%x' % (int.from_bytes(b, 'little') % m)
            elif op == 'ark.from_be_bytes_mod_order':
                b = bytes.fromhex(t[1]) if t[1] != '-' else b''; exp = '%x' % (int.from_bytes(b, 'big') % m)
            elif op == 'from_bytes_checked':
                v = int.from_bytes(bytes.fromhex(t[1]), 'little'); exp = 'OK %x' % v if v < m else 'ERR InvalidEncoding'
            elif op in ('to_bytes', 'to_bytes_le', 'ark.ser', 'hash'):
                exp = int(t[1], 16).to_bytes(n8, 'little').hex()
            elif op in ('cmp', 'partial_cmp'):
                a, b = int(t[1], 16), int(t[2], 16); exp = ('SOME ' if op == 'partial_cmp' else '') + str((a > b) - (a < b))
            elif op == 'ark.from_str':
                s = l.split(None, 1)[1].strip().strip('"'); exp = 'OK %x' % (int(s) % m if s else 0)
            elif op.startswith('from_u') or op in ('from_bool', 'ark.from_biguint'):
                exp = '%x' % (int(t[1], 16) % m)
            elif op in ('ark.deser', 'ark.deser.drip'):
                b = bytes.fromhex(t[1]) if t[1] != '-' else b''
                if len(b) < n8: exp = 'ERR Ser:IoError'
                else:
                    v = int.from_bytes(b[:n8], 'little'); exp = 'OK %x' % v if v < m else 'ERR Ser:InvalidData'
        except Exception:
            exp = None
        if exp is not None and o != exp:
            fails.append(('%s returns %s, the integer semantics gives %s (build %s)' % (l[:120], o[:80], exp[:80], build),
                          {'build': build, 'script': [l], 'output': [o], 'expected': exp}, {'class': 'conversion', 'build': build, 'op': t[0]}))
    return fails

def run_check(ctx):
    run_generic(ctx, 'C11', 'Props.C11', VO, FILES, 'C11 (canonical field encodings) is no longer shown to hold')
