"""C06 — every public constructor yields a valid group element."""
from ..core import *
from .. import harness, gen, pyref, corr
from ..curve import *
from .. import surface

VO = ['Props/C06.vo']
FILES = ['Props/C06.v', 'Proofs/Constructors.v', 'Proofs/Reach.v', 'Proofs/Projective.v']

def byte_strings(ctx, n):
    out = [b'', bytes(32), bytes([1] + [0] * 31), bytes([255] * 32), bytes([255] * 64), (Q - 1).to_bytes(32, 'little'), (Q).to_bytes(32, 'little')]
    for _ in range(n): out.append(ctx.rng.bytes(ctx.rng.below(70)))
    return out

def build_scripts(ctx, scale):
    lines = ['el.const.GENERATOR', 'el.const.IDENTITY', 'el.const.default', 'el.const.zero', 'el.const.generator', 'af.const.zero', 'af.const.generator', 'af.const.default']
    for b in byte_strings(ctx, 60 * scale): lines.append('af.from_random_bytes %s' % (b.hex() if b else '-'))
    for i in range(8 * scale):
        b = ctx.rng.bytes(ctx.rng.below(80)); lines.append('el.rand %s' % (b.hex() if b else '-'))
        if i % 2: lines.append('af.rand %s' % (b.hex() if b else '-'))
    # a stuck / low-entropy generator: the same 64-bit word for the first 1300 draws (then the harness's replay generator goes on with its own
    # stream): however many candidates are rejected, what the sampler finally hands out must be a valid element
    for w in list(range(1, 9 + 4 * min(scale, 10))) + [21, 29, 35, 39, 2**64 - 1, 2**63]:
        st = (w.to_bytes(8, 'little') * 1300).hex()
        lines.append('el.rand %s' % st)
        if w % 3 == 0: lines.append('af.rand %s' % st)
    pool = Pool('ark', ctx.rng.fork('pool'), n_rand=3 * scale)
    # deserialisers in EVERY mode (compressed / uncompressed, validated / unvalidated): 32-byte encodings, and 64-byte x||y of curve points
    # inside and outside the group, of off-curve pairs, of the origin
    blobs = [hexb(s) for s in [0, 8, Q - 1] + pool.encodable[:3]]
    for y in list(range(2, 8 + 4 * scale)) + [0, 1, Q - 1]:
        xx = (1 - y * y) * pow((Q - 1 - gen.D * y * y) % Q, -1, Q) % Q if (Q - 1 - gen.D * y * y) % Q else 0
        x = pyref.sqrt(xx)
        if x is None: x = y + 1          # off-curve pair
        for xs in (x, (Q - x) % Q): blobs.append(hexb(xs) + hexb(y))
    blobs += [hexb(0) + hexb(0), hexb(5) + hexb(7)]
    for bl in blobs:
        for op in ('el.deser', 'af.deser', 'el.deser_uncompressed', 'af.deser_uncompressed', 'el.deser_unchecked', 'af.deser_unchecked'): lines.append('%s %s' % (op, bl))
    for c in pool.all[:20 * scale]:
        lines += ['el.to_affine %s' % E(c), 'el.into_affine %s' % E(c), 'af.to_element %s' % Af(pyref.aff(c)), 'af.into_group %s' % Af(pyref.aff(c)), 'af.clear_cofactor %s' % Af(pyref.aff(c)),
                  'af.mul_by_cofactor_to_group %s' % Af(pyref.aff(c))]
    batches = pool.batches(ctx.rng)
    for l in batches:
        lines.append('el.normalize_batch %s' % ';'.join(E(c) for c in l)); lines.append('el.batch_convert_to_mul_base %s' % ';'.join(E(c) for c in l))
    for n in (0, 1, 3, 5):
        l = [pool.pick(ctx.rng) for _ in range(n)]
        lines.append('el.normalize_batch %s' % (';'.join(E(c) for c in l) if l else '-')); lines.append('el.batch_convert_to_mul_base %s' % (';'.join(E(c) for c in l) if l else '-'))
    return {'ark': lines, 'min': ['el.const.GENERATOR', 'el.const.IDENTITY']}

def is_valid_out(o):
    """does a harness output denote valid element(s)?  Returns (ok, description)"""
    t = o.split()
    if not t or t[0] in ('NONE', 'ERR'): return True, ''          # nothing was handed out
    if t[0] in ('SOME', 'OK'): t = t[1:]
    for tok in t:
        for e in tok.split(';'):
            if e == '-': continue
            try: v = [int(x, 16) for x in e.split(',')]
            except ValueError: return False, 'unparsable ' + o[:60]
            c = v if len(v) == 4 else [v[0], v[1], 1, v[0] * v[1] % Q]
            if not pyref.valid(c): return False, 'not a valid representative: ' + e[:80]
    return True, ''

def search(ctx, scale, hints):
    fails = []
    scripts = build_scripts(ctx, scale)
    for b, lines in scripts.items():
        out = harness.run_script(b, lines)
        l2 = []; idx = []
        for i, (l, o) in enumerate(zip(lines, out)):
            ok, why = is_valid_out(o)
            unsupported_mode = l.split()[0].endswith(('_uncompressed', '_unchecked'))   # unimplemented!() on the pinned tree: hands out nothing
            if (o == 'PANIC' and not unsupported_mode) or (o != 'PANIC' and not ok):
                fails.append(('%s hands out %s (build %s)' % (l[:90], why or o, b), {'build': b, 'script': [l], 'output': [o]}, {'class': 'constructor', 'op': l.split()[0]}))
    return fails

def always(ctx, scale):
    return surface.c06_conversions(ctx, Pool('ark', ctx.rng.fork('surf'), n_rand=3), scale)

def run_check(ctx):
    run_property(ctx, 'Props.C06', VO, FILES, build_scripts, search, 'C06 (constructors yield valid elements) is no longer shown to hold', always=always)