"""C07 — hash-to-group equals the specified Elligator 2 map."""
from ..core import *
from .. import harness, gen, pyref
from ..curve import *

VO = ['Props/C07.vo', 'Tie/SqrtArk.vo']      # the map calls the table-driven square root: its tie to the source is part of the obligation
FILES = ['Props/C07.v', 'Proofs/Elligator.v', 'Proofs/Reach.v', 'Proofs/Final.v', 'Tie/Curve.v', 'Proofs/Instance.v']

def inputs(ctx, scale):
    rs = [0, 1, Q - 1, 2, Q - 2, 3, 4, 5, 7, 8, 16, (Q - 1) // 2, (Q + 1) // 2]
    rs += [w for _, w in gen.roots_of_unity_q()[:48:3]]
    rs += [gen.rand_field(ctx.rng, Q) for _ in range(60 * scale)]
    rs += [(Q - r) % Q for r in rs[:40]]
    # inputs whose INNER square-root argument x = num*den has a structured 2-Sylow component (every digit window of the table-driven
    # square root, the generator of the 2-Sylow group, roots of unity): preimages of those x under r0 -> x (roots of a cubic in zeta*r0^2);
    # a ratio n/d of the square-root routine corresponds to x = d/n because the map calls sqrt_ratio_zeta(1, x)
    prng = ctx.rng.fork('preimages'); found = 0
    for n_, d_ in gen.sqrt_ratio_inputs(prng, 0):
        if n_ % Q == 0 or d_ % Q == 0: continue
        for attempt in range(5):      # only the 2-Sylow component matters: vary the odd-order part until the cubic has a usable root
            u = pow(prng.below(Q - 2) + 2, 2**47, Q) if attempt else 1
            pre = gen.elligator_preimages(d_ * pow(n_, -1, Q) * u % Q, prng)
            if pre: rs += pre[:2]; found += 1; break
        if found >= 60: break
    return rs

def build_scripts(ctx, scale):
    rs = inputs(ctx, scale); scripts = {}
    for b in ('ark', 'min'):
        lines = ['el.elligator %x' % r for r in rs]
        for r in rs[:10]:      # coinciding summands: the one-input map is even, so (r, r) and (r, -r) add a point to itself
            lines.append('el.hash_to_curve %x %x' % (r, r)); lines.append('el.hash_to_curve %x %x' % (r, (Q - r) % Q))
        for i in range(30 * scale):
            lines.append('el.hash_to_curve %x %x' % (ctx.rng.choice(rs), ctx.rng.choice(rs)))
        scripts[b] = lines
    return scripts

def search(ctx, scale, hints):
    fails = []
    rs = inputs(ctx, scale)
    for h in hints:
        t = h['line'].split()
        if t[0] == 'el.elligator': rs.append(int(t[1], 16))
    for b in ('ark', 'min'):
        lines = ['el.elligator %x' % r for r in rs] + ['el.elligator %x' % ((Q - r) % Q) for r in rs]
        out = harness.run_script(b, lines)
        n = len(rs)
        for i, r in enumerate(rs):
            o = out[i]
            if ',' not in o:
                fails.append(('elligator(%x) gives %s (build %s)' % (r, o, b), {'build': b, 'script': [lines[i]], 'output': [o]}, {'class': 'panic', 'build': b})); continue
            c = parseE(o); spec = pyref.elligator_spec(r)
            if not pyref.valid(c):
                fails.append(('elligator(%x) is not a valid element: %s (build %s)' % (r, o, b), {'build': b, 'script': [lines[i]], 'output': [o]}, {'class': 'invalid', 'build': b}))
            elif not pyref.coset_eq(pyref.aff(c), spec):
                fails.append(('elligator(%x) = %s differs from the specification %s (build %s)' % (r, pyref.aff(c), spec, b),
                              {'build': b, 'script': [lines[i]], 'output': [o], 'spec': list(spec)}, {'class': 'not_spec', 'build': b}))
            o2 = out[n + i]
            if ',' in o2 and pyref.valid(c) and not pyref.coset_eq(pyref.aff(parseE(o2)), pyref.aff(c)):
                fails.append(('elligator(-r0) != elligator(r0) for r0 = %x (build %s)' % (r, b), {'build': b, 'script': [lines[i], lines[n + i]], 'output': [o, o2]}, {'class': 'neg', 'build': b}))
        lines = []; meta = []
        for r in rs[:12]:
            for r2 in (r, (Q - r) % Q): lines.append('el.hash_to_curve %x %x' % (r, r2)); meta.append((r, r2))
        for i in range(40 * scale):
            r1, r2 = ctx.rng.choice(rs), ctx.rng.choice(rs); lines.append('el.hash_to_curve %x %x' % (r1, r2)); meta.append((r1, r2))
        out = harness.run_script(b, lines)
        for (r1, r2), l, o in zip(meta, lines, out):
            if ',' not in o:
                fails.append(('%s gives %s' % (l, o), {'build': b, 'script': [l], 'output': [o]}, {'class': 'panic', 'build': b})); continue
            exp = pyref.ed_add(pyref.elligator_spec(r1), pyref.elligator_spec(r2))
            if not pyref.coset_eq(pyref.aff(parseE(o)), exp):
                fails.append(('hash_to_curve(%x,%x) is not the sum of the two maps (build %s)' % (r1, r2, b), {'build': b, 'script': [l], 'output': [o], 'spec': list(exp)}, {'class': 'hash_sum', 'build': b}))
    return fails

def run_check(ctx):
    run_property(ctx, 'Props.C07', VO, FILES, build_scripts, search, 'C07 (Elligator map) is no longer shown to hold')
