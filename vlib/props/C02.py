"""C02 — decoding accepts exactly the canonical encodings of the specification; all entry points agree."""
from ..core import *
from .. import harness, gen, pyref
from ..curve import *
from .. import surface

VO = ['Props/C02.vo', 'Tie/SqrtArk.vo']      # decode/encode call the table-driven square root: its tie to the source is part of the obligation
FILES = ['Props/C02.v', 'Proofs/Codec.v', 'Proofs/BytesLemmas.v', 'Proofs/ByteLevel.v', 'Proofs/Final.v', 'Tie/Curve.v', 'Proofs/Instance.v', 'Proofs/SqrtTS.v', 'Proofs/SqrtSarkar.v']
ENTRY32 = {'ark': ['el.dec', 'el.dec.decompress', 'el.dec.tf_enc', 'el.dec.tf_encref', 'el.dec.tf_arr', 'el.dec.tf_slice', 'el.dec.enc_tf_slice', 'el.deser', 'af.deser', 'el.deser.drip', 'af.deser.drip'],
           'min': ['el.dec', 'el.dec.tf_enc', 'el.dec.tf_encref', 'el.dec.tf_arr', 'el.dec.tf_slice', 'el.dec.enc_tf_slice']}
# the serialisation modes the crate does not implement (Validate::No, Compress::No): they may stop (unimplemented!()), but must never hand out
# an element for a string the specification rejects, nor a different element
LENIENT = {'ark': ['el.deser_unchecked', 'af.deser_unchecked', 'el.deser_uncompressed', 'af.deser_uncompressed'], 'min': []}
ANYLEN = {'ark': ['el.dec.tf_slice', 'el.dec.enc_tf_slice', 'el.deser', 'af.deser', 'el.deser.drip', 'af.deser.drip'], 'min': ['el.dec.tf_slice', 'el.dec.enc_tf_slice']}

def strings(ctx, build, scale):
    pool = Pool(build, ctx.rng.fork('pool-' + build), n_rand=4)
    return near_miss_strings(ctx.rng, pool.encodable, n_flip=10 * scale) + [ctx.rng.bits(256) for _ in range(20 * scale)] + \
           [ctx.rng.bits(253) & ~1 for _ in range(60 * scale)]

def build_scripts(ctx, scale):
    scripts = {}
    for b in ('ark', 'min'):
        ss = strings(ctx, b, scale); lines = []
        for i, s in enumerate(ss):
            for op in (ENTRY32[b] if i % 4 == 0 or i < 40 else ENTRY32[b][:1] + [ctx.rng.choice(ENTRY32[b])]):
                lines.append('%s %s' % (op, hexb(s)))
            if i % 8 == 0 or i < 24:
                for op in LENIENT[b]: lines.append('%s %s' % (op, hexb(s)))
        for n in range(0, 81):      # all slice lengths 0..=80, content = prefix/extension of a valid encoding
            base = (8).to_bytes(32, 'little') + bytes([ctx.rng.below(256) for _ in range(48)])
            h = base[:n].hex() if n else '-'
            for op in ANYLEN[b]: lines.append('%s %s' % (op, h))
        scripts[b] = lines
    return scripts

def search(ctx, scale, hints):
    fails = []
    for b in ('ark', 'min'):
        ss = strings(ctx, b, scale)
        for h in hints:
            t = h['line'].split()
            if len(t) > 1 and len(t[1]) == 64: ss.append(int.from_bytes(bytes.fromhex(t[1]), 'little'))
        lines = []; meta = []
        for s in ss:
            for op in ENTRY32[b] + LENIENT[b]:
                lines.append('%s %s' % (op, hexb(s))); meta.append((op, s))
        out = harness.run_script(b, lines)
        for (op, s), l, o in zip(meta, lines, out):
            spec = pyref.decode_spec(s)
            if op in LENIENT[b] and (o == 'PANIC' or o.startswith('ERR')): continue      # unsupported mode: nothing handed out
            if o == 'PANIC':
                fails.append(('%s panics on %s (build %s)' % (op, hexb(s), b), {'build': b, 'script': [l], 'output': [o]}, {'class': 'panic', 'build': b, 'op': op})); continue
            if spec is None:
                if not o.startswith('ERR'):
                    fails.append(('%s accepts %s, which the specification rejects (build %s)' % (op, hexb(s), b),
                                  {'build': b, 'script': [l], 'output': [o], 'spec': 'reject'}, {'class': 'accepts_invalid', 'build': b, 'op': op}))
            else:
                if not o.startswith('OK'):
                    fails.append(('%s rejects %s, which the specification accepts (build %s)' % (op, hexb(s), b),
                                  {'build': b, 'script': [l], 'output': [o], 'spec': list(spec)}, {'class': 'rejects_valid', 'build': b, 'op': op}))
                else:
                    c = parseE(o.split()[1]) if o.split()[1].count(',') == 3 else None
                    got = pyref.aff(c) if c else tuple(parseE(o.split()[1]))
                    if got != spec:
                        fails.append(('%s decodes %s to %s, the specification gives %s (build %s)' % (op, hexb(s), got, spec, b),
                                      {'build': b, 'script': [l], 'output': [o], 'spec': list(spec)}, {'class': 'wrong_point', 'build': b, 'op': op}))
        # slice lengths
        lines = []
        for n in list(range(0, 32)) + list(range(33, 81)):
            h = bytes([8] + [0] * 79)[:n].hex() if n else '-'
            for op in ('el.dec.tf_slice', 'el.dec.enc_tf_slice'): lines.append('%s %s' % (op, h))
        out = harness.run_script(b, lines)
        for l, o in zip(lines, out):
            if o != 'ERR InvalidSliceLength':
                fails.append(('%s on a %d-byte slice gives %s instead of a length error (build %s)' % (l.split()[0], 0 if l.split()[1] == '-' else len(l.split()[1]) // 2, o, b),
                              {'build': b, 'script': [l], 'output': [o]}, {'class': 'slice_length', 'build': b}))
        # stream entry points: fewer than 32 bytes can never be an encoding (whatever their zero-padded completion would decode to)
        if b == 'ark':
            lines = []
            for n in range(0, 32):
                for first in (8, 0):
                    h = bytes([first] + [0] * 31)[:n].hex() if n else '-'
                    for op in ('el.deser', 'af.deser', 'enc.deser', 'el.deser.drip', 'af.deser.drip', 'enc.deser.drip'): lines.append('%s %s' % (op, h))
            out = harness.run_script(b, lines)
            for l, o in zip(lines, out):
                if not o.startswith('ERR'):
                    n = 0 if l.split()[1] == '-' else len(l.split()[1]) // 2
                    fails.append(('%s accepts a %d-byte stream (%s) and returns %s (build %s)' % (l.split()[0], n, l.split()[1], o[:80], b),
                                  {'build': b, 'script': [l], 'output': [o]}, {'class': 'short_stream', 'build': b, 'op': l.split()[0]}))
    return fails

def always(ctx, scale):
    return surface.c02_encoding_type(ctx, None, scale)

def run_check(ctx):
    run_property(ctx, 'Props.C02', VO, FILES, build_scripts, search, 'C02 (exact acceptance set) is no longer shown to hold', always=always)