"""C15 (partial) — circuit shape is input-independent and matches the pinned Groth16 keys."""
from ..core import *
from .. import harness, gen, pyref, coq, gadgets as G
from ..curve import *
from ..gen import R

VO = ['Props/C15.vo']
FILES = ['Props/C15.v', 'Props/C13.v']
LEVEL = 'proof'

def run_check(ctx):
    st = coq.proof_stage(ctx, 'Props.C15', VO + ['Props/C13.vo'], FILES)
    finish_proof(ctx, st)
    scale = 1 if ctx.tier == 'quick' else 16
    if getattr(ctx, 'changed', None) and ctx.tier == 'quick': scale = 3
    rng = ctx.rng; pool = Pool('ark', rng.fork('pool'), n_rand=2 * min(scale, 4))
    # (a) matrix digests per (gadget, mode) over structured inputs: must be identical for every input
    groups = {}
    def add(gadget, mode, args, sub=''): groups.setdefault((gadget + sub, mode), []).append('r1.shape %s %s %s' % (gadget, mode, args))
    fvals = lambda extra: extra + [gen.rand_field(rng, Q) for _ in range(3 * scale)]
    els = [IDENT, T2REP] + pool.all[2:5 + 2 * scale]
    for mode in ('witness', 'input'):
        for s in [0, 8, 2, Q - 1, Q - 2, 1] + pool.encodable[:4] + fvals([]):
            add('decode', mode, '%x' % s); add('new_fq', mode, '%x' % s)
            for w in ('c', 'e', 'ec', 'ce', 'cec'): add('lazy.enc', mode, '%x %s' % (s, w), '/' + w)
        for r0 in fvals([0, 1, Q - 1, 5]): add('elligator', mode, '%x' % r0)
        for x in fvals([0, 1, 4, gen.ZETA, Q - 1, (Q - 1) // 2, (Q + 1) // 2]):
            for gname in ('isqrt', 'is_negative', 'is_nonnegative', 'abs'): add(gname, mode, '%x' % x)
        for c in els:
            other = pool.pick(rng)
            for gname in ('encode', 'new', 'new_omit', 'neg', 'double', 'double_in_place', 'enforce_prime_order', 'to_bits', 'to_bytes'): add(gname, mode, E(c))
            add('new_affine', mode, Af(pyref.aff(c)))
            for w in ('c', 'e', 'ce', 'ec'): add('lazy', mode, '%s %s' % (E(c), w), '/' + w)
            for gname in ('add', 'add.ref', 'add.const', 'add_assign', 'add_assign.ref', 'add_assign.const', 'sub', 'sub.ref', 'sub.const', 'sub_assign', 'sub_assign.ref',
                          'sub_assign.const', 'is_eq', 'enforce_equal', 'enforce_not_equal'):
                if gname.endswith('.const'):
                    # a constant operand is part of the circuit description (its coordinates are matrix coefficients): fixed constants, varying variable
                    for o in (pool.base[0], T2REP): add(gname, mode, '%s %s' % (E(c), E(o)), '/' + E(o)[:16])
                else:
                    for o in (other, c, t2_translate(c)): add(gname, mode, '%s %s' % (E(c), E(o)))
            for gname in ('cond_enforce_equal', 'cond_enforce_not_equal', 'select'):
                for flag in (0, 1):
                    for o in (other, c): add(gname, mode, '%d %s %s' % (flag, E(c), E(o)))
            for k in (0, 1, 2**64 - 1, rng.bits(64)): add('scalar_mul', mode, '%s %x' % (E(c), k))
            for w in ('cac', 'vdc', 'cqcnc'): add('hist', mode, '%s %s %s' % (E(c), E(other), w), '/' + w)
    # setup mode (key generation: no assignment available) must produce the same system as proving mode
    for (gadget, mode), ls in list(groups.items()):
        for l in ls[:2]: groups[(gadget, mode)].append(l.replace('r1.shape ', 'r1.shape.setup ', 1))
    lines = [l for v in groups.values() for l in v]
    try:
        out = harness.run_script('ark', lines)
    except RuntimeError as e:
        ctx.violation('harness failed: %s' % str(e)[:300], {'stage': 'build', 'log': str(e)[-3000:]}, {'stage': 'build'}, found_input=False); return
    res = dict(zip(lines, out)); nviol = 0; digests = {}
    for (gadget, mode), ls in groups.items():
        shas = {}
        for l in ls:
            d = G.parse_r1(res[l])
            if 'sha' not in d:
                if 'UNSUPPORTED' in res[l] or 'BADINPUT' in res[l]: continue
                shas.setdefault('ERR:' + res[l][:40], []).append(l); continue
            shas.setdefault((d['sha'], d.get('ncons'), d.get('ninst'), d.get('nwit')), []).append(l)
        digests['%s/%s' % (gadget, mode)] = [str(k) for k in shas]
        if len(shas) > 1:
            ks = list(shas); nviol += 1
            ctx.violation('the constraint system of gadget %s (%s mode) depends on the input: %s vs %s' % (gadget, mode, shas[ks[0]][0][:90], shas[ks[1]][0][:90]),
                          {'stage': 'enumeration', 'script': [shas[ks[0]][0], shas[ks[1]][0]], 'digests': [str(ks[0]), str(ks[1])]}, {'class': 'shape', 'gadget': gadget, 'mode': mode}, found_input=True)
    ctx.extra['digests'] = digests
    # (b) an element allocated as public input contributes exactly one instance variable equal to its field encoding,
    #     which is also what to_field_elements reports
    #     — through EVERY way of allocating a public input: from an Element, from an AffinePoint, from its field encoding
    l2 = []
    for c in [IDENT, T2REP] + pool.all[2:10]:
        l2 += ['r1.new input %s' % E(c), 'el.to_field_elements %s' % E(c), 'el.enc.to_field %s' % E(c)]
        if c[2] % Q == 1 or True:
            a = pyref.aff(c); l2 += ['r1.new_affine input %s' % Af(a), 'af.to_field_elements %s' % Af(a), 'el.enc.to_field %s' % E(c)]
    o2 = harness.run_script('ark', l2)
    enc_of = {}
    for i in range(0, len(l2), 3):
        d = G.parse_r1(o2[i]); enc = o2[i + 2]
        ok = d.get('ninst') == '2' and d.get('nwit') == '0' and d.get('ncons') == '0' and d.get('enc') == enc and o2[i + 1] in ('SOME ' + enc, 'UNSUPPORTED')
        if not ok:
            ctx.violation('public-input allocation %s: %s; to_field_elements: %s; field encoding: %s' % (' '.join(l2[i].split()[:2]) + ' ' + l2[i].split()[-1][:50], o2[i][:120], o2[i + 1], enc),
                          {'stage': 'enumeration', 'script': l2[i:i + 3], 'output': o2[i:i + 3]}, {'class': 'public_input', 'op': l2[i].split()[0]}, found_input=True)
    l3 = ['r1.new_fq input %x' % s_ for s_ in [0, 8] + pool.encodable[:3]]
    for l, o in zip(l3, harness.run_script('ark', l3)):
        d = G.parse_r1(o)
        if not (d.get('ninst') == '2' and d.get('nwit') == '0' and d.get('ncons') == '0' and d.get('enc') == l.split()[-1]):
            ctx.violation('public-input allocation %s: %s' % (l, o[:140]), {'stage': 'enumeration', 'script': [l], 'output': [o]}, {'class': 'public_input', 'op': 'r1.new_fq'}, found_input=True)
    # (c) the pinned Groth16 keys (tests/test_vectors): the seven circuits of tests/groth16_gadgets.rs (included verbatim by the
    #     harness) are proved with the pinned proving key; the proof must verify under the pinned verifying key with the honest
    #     public input and must be rejected for any other public input.  Witnesses: the structured values upstream never draws.
    d0 = pool.derived[0] if pool.derived else pool.base[0]; b0 = pool.base[0]
    els = [IDENT, T2REP, b0, d0] + ([pool.pick(rng) for _ in range(3 * scale)] if scale > 1 else [])
    g16 = []
    for c in els:
        for circ in ('compression', 'decompression', 'public_element_input', 'negation'): g16.append(('g16.%s %s' % (circ, E(c)), 1))
    for r0 in [0, 1, Q - 1] + [gen.rand_field(rng, Q) for _ in range(scale)]: g16.append(('g16.elligator %x' % r0, 1))
    for k in [0, 1, R - 1, R, 2**256 - 1] + [rng.bits(256) for _ in range(scale)]: g16.append(('g16.discrete_log %s' % hexb(k), 1))
    for a, b2 in [(IDENT, IDENT), (b0, b0), (b0, neg_pt(b0)), (T2REP, d0), (d0, b0)]: g16.append(('g16.add_assign_add %s %s' % (E(a), E(b2)), 1))
    wrong = '%x' % gen.rand_field(rng, Q)
    for circ, a in (('compression', E(b0)), ('decompression', E(b0)), ('public_element_input', E(d0)), ('negation', E(b0)), ('elligator', '5'), ('discrete_log', hexb(7))):
        g16.append(('g16.%s %s pub=%s' % (circ, a, wrong), 0))
    g16.append(('g16.add_assign_add %s %s pub=%s;%s' % (E(b0), E(d0), wrong, wrong), 0))
    if ctx.tier == 'quick': g16 = [x for i, x in enumerate(g16) if i % 2 == 0 or x[1] == 0]
    try:
        o3 = harness.run_parallel('ark', [l for l, _ in g16], nproc=12, env={'H_OP_TIMEOUT_MS': '300000'})
    except RuntimeError as e:
        ctx.violation('harness failed: %s' % str(e)[:300], {'stage': 'build', 'log': str(e)[-3000:]}, {'stage': 'build'}, found_input=False); return
    g16hist = {}
    for (l, want), o in zip(g16, o3):
        d = G.parse_r1(o); circ = l.split()[0]
        g16hist[circ] = g16hist.get(circ, 0) + 1
        good = d.get('proved') == '1' and d.get('verified') == str(want)
        if not good:
            what = ('a proof made with the pinned proving key is not accepted by the pinned verifying key' if want == 1 else 'a proof is accepted for a public input other than the honest one')
            ctx.violation('%s: %s (%s)' % (l[:100], what, o[:80]), {'stage': 'enumeration', 'script': [l], 'output': [o]}, {'class': 'groth16', 'circuit': circ, 'want': want}, found_input=True)
    ctx.extra['groth16'] = g16hist
    ctx.cov['evaluations'] += len(lines) + len(l2) + len(g16); ctx.cov['distinct_nontrivial'] += len(set(lines)) + len(g16)
    ctx.cov['samples'] += [{'op': l[:120], 'output': res[l][:160]} for l in lines[:4]]
    ctx.cov['rule'] = 'sha256 of to_matrices() + variable counts for every gadget and allocation mode over structured inputs (valid/invalid encodings, identity representatives, both coset members); public-input allocation vs to_field_elements vs field encoding; setup-mode vs proving-mode digests; Groth16 prove/verify with the pinned keys on structured witnesses and wrong public inputs'
    if st['regen_ok'] and not st['make_ok'] and not ctx.violations:
        ctx.violation('C15 is no longer shown to hold — %s no longer checks (a witness value reaches control flow in a gadget source, or the lazy state machine changed); matrix digests are input-independent on every input tried' % st['bad_file'],
                      {'stage': 'proof', 'theorem_file': st['bad_file'], 'coq_log': st['make_log'][-3000:]}, {'stage': 'proof', 'file': st['bad_file']}, found_input=False)
    ctx.assumptions += ['PARTIAL: the constraint matrices and Groth16 with the pinned keys are not modelled in Coq; matrix digests are enumerated on the implementation; the pinned-key round trip (prove with tests/test_vectors pk, verify with vk, reject other public inputs) is exercised on the implementation for the seven circuits with structured witnesses',
                        'translator/gadget_shape.py (static taint analysis of the gadget sources) is trusted', 'Coq kernel']
