"""C15 (partial) — circuit shape is input-independent and matches the pinned Groth16 keys."""
from ..core import *
from .. import harness, gen, pyref, coq, gadgets as G
from ..curve import *

VO = ['Props/C15.vo']
FILES = ['Props/C15.v', 'Props/C13.v']
LEVEL = 'proof'

def run_check(ctx):
    st = coq.proof_stage(ctx, 'Props.C15', VO + ['Props/C13.vo'], FILES)
    finish_proof(ctx, st)
    scale = 1 if ctx.tier == 'quick' else 6
    rng = ctx.rng; pool = Pool('ark', rng.fork('pool'), n_rand=3 * scale)
    # (a) matrix digests per (gadget, mode) over structured inputs: must be identical for every input
    groups = {}
    def add(gadget, mode, args): groups.setdefault((gadget, mode), []).append('r1.shape %s %s %s' % (gadget, mode, args))
    for mode in ('witness', 'input'):
        for s in [0, 8, 2, Q - 1, Q - 2, 1] + pool.encodable[:4] + [gen.rand_field(rng, Q) for _ in range(4 * scale)]: add('decode', mode, '%x' % s)
        for r0 in [0, 1, Q - 1, 5] + [gen.rand_field(rng, Q) for _ in range(3 * scale)]: add('elligator', mode, '%x' % r0)
        for x in [0, 1, 4, gen.ZETA] + [gen.rand_field(rng, Q) for _ in range(3 * scale)]: add('isqrt', mode, '%x' % x)
    for c in [IDENT, T2REP] + pool.all[2:8 + 2 * scale]:
        add('encode', 'witness', E(c)); add('new', 'witness', E(c)); add('neg', 'witness', E(c)); add('double', 'witness', E(c))
        add('add', 'witness', '%s %s' % (E(c), E(pool.pick(rng)))); add('is_eq', 'witness', '%s %s' % (E(c), E(pool.pick(rng))))
        add('scalar_mul', 'witness', '%s %x' % (E(c), rng.bits(64)))
        add('new', 'input', E(c))
    lines = [l for v in groups.values() for l in v]
    try:
        out = harness.run_script('ark', lines)
    except RuntimeError as e:
        ctx.violation('harness failed: %s' % str(e)[:300], {'stage': 'build', 'log': str(e)[-3000:]}, {'stage': 'build'}, found_input=False); return
    res = dict(zip(lines, out)); nviol = 0; digests = {}
    for (gadget, mode), ls in groups.items():
        shas = {}
        for l in ls:
            d = G.parse_r1(res[l])
            if 'sha' not in d:
                if 'UNSUPPORTED' in res[l] or 'BADINPUT' in res[l]: continue
                shas.setdefault('ERR:' + res[l][:40], []).append(l); continue
            shas.setdefault((d['sha'], d.get('ncons'), d.get('ninst'), d.get('nwit')), []).append(l)
        digests['%s/%s' % (gadget, mode)] = [str(k) for k in shas]
        if len(shas) > 1:
            ks = list(shas); nviol += 1
            ctx.violation('the constraint system of gadget %s (%s mode) depends on the input: %s vs %s' % (gadget, mode, shas[ks[0]][0][:90], shas[ks[1]][0][:90]),
                          {'stage': 'enumeration', 'script': [shas[ks[0]][0], shas[ks[1]][0]], 'digests': [str(ks[0]), str(ks[1])]}, {'class': 'shape', 'gadget': gadget, 'mode': mode}, found_input=True)
    ctx.extra['digests'] = digests
    # (b) an element allocated as public input contributes exactly one instance variable equal to its field encoding,
    #     which is also what to_field_elements reports
    l2 = []
    for c in [IDENT, T2REP] + pool.all[2:10]:
        l2 += ['r1.new input %s' % E(c), 'el.to_field_elements %s' % E(c), 'el.enc.to_field %s' % E(c)]
    o2 = harness.run_script('ark', l2)
    for i in range(0, len(l2), 3):
        d = G.parse_r1(o2[i]); enc = o2[i + 2]
        ok = d.get('ninst') == '2' and d.get('nwit') == '0' and d.get('ncons') == '0' and d.get('enc') == enc and o2[i + 1] == 'SOME ' + enc
        if not ok:
            ctx.violation('public-input allocation of %s: %s; to_field_elements: %s; field encoding: %s' % (l2[i].split()[-1][:60], o2[i][:120], o2[i + 1], enc),
                          {'stage': 'enumeration', 'script': l2[i:i + 3], 'output': o2[i:i + 3]}, {'class': 'public_input'}, found_input=True)
    ctx.cov['evaluations'] += len(lines) + len(l2); ctx.cov['distinct_nontrivial'] += len(set(lines))
    ctx.cov['samples'] += [{'op': l[:120], 'output': res[l][:160]} for l in lines[:4]]
    ctx.cov['rule'] = 'sha256 of to_matrices() + variable counts for every gadget and allocation mode over structured inputs (valid/invalid encodings, identity representatives, both coset members); public-input allocation vs to_field_elements vs field encoding'
    if st['regen_ok'] and not st['make_ok'] and not ctx.violations:
        ctx.violation('C15 is no longer shown to hold — %s no longer checks (a witness value reaches control flow in a gadget source, or the lazy state machine changed); matrix digests are input-independent on every input tried' % st['bad_file'],
                      {'stage': 'proof', 'theorem_file': st['bad_file'], 'coq_log': st['make_log'][-3000:]}, {'stage': 'proof', 'file': st['bad_file']}, found_input=False)
    ctx.assumptions += ['PARTIAL: the constraint matrices and Groth16 with the pinned keys are not modelled in Coq; matrix digests are enumerated on the implementation; the pinned-key round trip is exercised by the repository test tests/groth16_gadgets.rs',
                        'translator/gadget_shape.py (static taint analysis of the gadget sources) is trusted', 'Coq kernel']
