"""C17 — published constants are consistent with the moduli and the curve."""
import re, json
from ..core import *
from .. import coq, harness

Q = 0x12ab655e9a2ca55660b44d1e5c37b00159aa76fed00000010a11800000000001
R = 0x4aad957a68b2955982d1347970dec005293a3afc43c8afeb95aee9ac33fd9ff
P = 0x01ae3a4617c510eac63b05c06ca1493b1a22d9f300f5138f1ef3622fba094800170b5d44300000008508c00000000001
MOD = {'fq': Q, 'fr': R, 'fp': P}
NL = {'fq': 4, 'fr': 4, 'fp': 6}

VO = ['Props/C17.vo']
FILES = ['Props/C17.v', 'Props/C17/FqOk.v', 'Props/C17/FrOk.v', 'Props/C17/FpOk.v', 'Props/C17/CurveOk.v']

def parse_consts():
    """name -> ('ints'|'mont'|'int'|'dec'|other, payload) from Generated/Consts.v"""
    d = {}
    for line in open(os.path.join(COQ, 'Generated', 'Consts.v')):
        m = re.match(r'Definition (c_\S+) : cval := (.*)\.$', line.strip())
        if not m: continue
        n, t = m.group(1), m.group(2)
        mm = re.match(r'CInts \[(.*)\]$', t)
        if mm: d[n] = ('ints', [int(x) for x in mm.group(1).split(';') if x.strip()]); continue
        mm = re.match(r'CMont "[^"]*" \[(.*)\]$', t)
        if mm: d[n] = ('mont', [int(x) for x in mm.group(1).split(';') if x.strip()]); continue
        mm = re.match(r'CInt \((-?\d+)\)$', t)
        if mm: d[n] = ('int', int(mm.group(1))); continue
        d[n] = ('other', t)
    return d

def limbs(l): return sum(v << (64 * i) for i, v in enumerate(l))

API = [  # (harness op suffix, constant name suffix, kind)
    ('MODULUS_LIMBS', 'MODULUS_LIMBS', 'ints'), ('MODULUS_MINUS_ONE_DIV_TWO_LIMBS', 'MODULUS_MINUS_ONE_DIV_TWO_LIMBS', 'ints'),
    ('TRACE_LIMBS', 'TRACE_LIMBS', 'ints'), ('TRACE_MINUS_ONE_DIV_TWO_LIMBS', 'TRACE_MINUS_ONE_DIV_TWO_LIMBS', 'ints'),
    ('MODULUS_BIT_SIZE', 'MODULUS_BIT_SIZE', 'int'), ('TWO_ADICITY', 'TWO_ADICITY', 'int'),
    ('MULTIPLICATIVE_GENERATOR', 'MULTIPLICATIVE_GENERATOR', 'mont'), ('TWO_ADIC_ROOT_OF_UNITY', 'TWO_ADIC_ROOT_OF_UNITY', 'mont'),
    ('FIELD_SIZE_POWER_OF_TWO', 'FIELD_SIZE_POWER_OF_TWO', 'mont'), ('QUADRATIC_NON_RESIDUE_TO_TRACE', 'QUADRATIC_NON_RESIDUE_TO_TRACE', 'mont'),
]

def independent_recompute(consts):
    """The failing-input search of a configuration property: recompute every field constant from the modulus in
    plain Python and name the literals that disagree (the replay is the constant itself)."""
    bad = []
    gens = {'fq': 22, 'fr': 5, 'fp': 15}
    qnrs = {'fq': 11, 'fp': 5}
    for f, m in MOD.items():
        ty = f[0].upper() + f[1]
        n = NL[f]; Rm = pow(2, 64 * n, m)
        s = 0; t = m - 1
        while t % 2 == 0: t //= 2; s += 1
        exp = {'MODULUS_LIMBS': m, 'MODULUS_MINUS_ONE_DIV_TWO_LIMBS': (m - 1) // 2, 'TRACE_LIMBS': t,
               'TRACE_MINUS_ONE_DIV_TWO_LIMBS': (t - 1) // 2, 'MODULUS_BIT_SIZE': m.bit_length(), 'TWO_ADICITY': s,
               'MULTIPLICATIVE_GENERATOR': gens[f], 'TWO_ADIC_ROOT_OF_UNITY': pow(gens[f], t, m),
               'FIELD_SIZE_POWER_OF_TWO': pow(2, 8 * ((m.bit_length() + 7) // 8), m)}
        if f in qnrs: exp['QUADRATIC_NON_RESIDUE_TO_TRACE'] = pow(qnrs[f], t, m)
        for k, v in exp.items():
            nm = 'c_fields_%s_rs__%s__%s' % (f, ty, k)
            if nm not in consts: bad.append({'constant': nm, 'found': 'MISSING', 'expected': v}); continue
            kind, pay = consts[nm]
            if kind == 'ints': got = limbs(pay)
            elif kind == 'int': got = pay
            elif kind == 'mont': got = limbs(pay) * pow(Rm, -1, m) % m
            else: got = None
            if got != v: bad.append({'constant': nm, 'literal': pay, 'denotes': got, 'recomputed_from_modulus': v})
    return bad

def run_check(ctx):
    st = coq.proof_stage(ctx, 'Props.C17', VO, FILES)
    consts = parse_consts() if st['regen_ok'] else {}
    # --- correspondence: the public API of both builds reports the same values as the extracted literals
    mism = []
    neval = 0; samples = []
    for kind in ('ark', 'min'):
        script = []; meta = []
        for f in ('fq', 'fr', 'fp'):
            ty = f[0].upper() + f[1]
            for op, cn, k in API:
                nm = 'c_fields_%s_rs__%s__%s' % (f, ty, cn)
                if nm not in consts: continue
                script.append('%s.const.%s' % (f, op)); meta.append((f, nm, k))
        try:
            outs = harness.run_script(kind, script)
        except RuntimeError as e:
            ctx.violation('harness build/run failed: %s' % str(e)[:500], {'stage': 'harness', 'build': kind, 'log': str(e)[-3000:]}, {'stage': 'harness'}, found_input=False)
            continue
        for line, (f, nm, k), out in zip(script, meta, outs):
            neval += 1
            kindc, pay = consts[nm]
            m = MOD[f]
            try:
                if k == 'ints':
                    got = [int(x, 16) for x in out.split(',')]; exp = pay
                elif k == 'int':
                    got = int(out); exp = pay
                else:
                    got = int(out, 16); exp = limbs(pay) * pow(pow(2, 64 * NL[f], m), -1, m) % m
            except Exception:
                got = out; exp = pay
            if len(samples) < 6: samples.append({'build': kind, 'op': line, 'api_value': out})
            if got != exp:
                mism.append({'build': kind, 'op': line, 'api': out, 'extracted_literal': pay})
    # --- the arkworks trait constants (PrimeField / FftField associated constants) and the remaining inherent constants, recomputed
    #     from the modulus alone (number theory in Python): the trait view must agree with the inherent constants and with the modulus
    TRAIT = [('MODULUS_MINUS_ONE_DIV_TWO', 'MODULUS_MINUS_ONE_DIV_TWO_LIMBS'), ('TRACE', 'TRACE_LIMBS'), ('TRACE_MINUS_ONE_DIV_TWO', 'TRACE_MINUS_ONE_DIV_TWO_LIMBS'),
             ('TWO_ADICITY', 'TWO_ADICITY'), ('TWO_ADIC_ROOT_OF_UNITY', 'TWO_ADIC_ROOT_OF_UNITY'), ('GENERATOR', 'MULTIPLICATIVE_GENERATOR'), ('MODULUS_BIT_SIZE', 'MODULUS_BIT_SIZE')]
    def lim(v, n): return ','.join('%x' % ((v >> (64 * i)) & (2**64 - 1)) for i in range(n))
    try:
        script = []
        for f in ('fq', 'fr', 'fp'):
            for tn, inh in TRAIT: script += ['%s.ark.const.%s' % (f, tn), '%s.const.%s' % (f, inh)]
            script += ['%s.ark.const.%s' % (f, x) for x in ('LARGE_SUBGROUP_ROOT_OF_UNITY', 'SMALL_SUBGROUP_BASE', 'SMALL_SUBGROUP_BASE_ADICITY', 'SQRT_PRECOMP')]
        script += ['fp.const.QUADRATIC_NON_RESIDUE', 'fq.const.ZETA', 'fq.const.SENTINEL']
        outs = dict(zip(script, harness.run_script('ark', script))); neval += len(script)
        mo = dict(zip(['fp.const.QUADRATIC_NON_RESIDUE', 'fq.const.ZETA', 'fq.const.SENTINEL'], harness.run_script('min', ['fp.const.QUADRATIC_NON_RESIDUE', 'fq.const.ZETA', 'fq.const.SENTINEL'])))
        def bad(op, got, why): ctx.violation('API constant %s = %s: %s' % (op, got[:100], why), {'stage': 'search', 'script': [op], 'output': [got]}, {'stage': 'api_constant', 'op': op}, found_input=True)
        for f in ('fq', 'fr', 'fp'):
            m = MOD[f]; nl = NL[f]; s2 = ((m - 1) & -(m - 1)).bit_length() - 1; t = (m - 1) >> s2
            exp = {'MODULUS_MINUS_ONE_DIV_TWO': lim((m - 1) // 2, nl), 'TRACE': lim(t, nl), 'TRACE_MINUS_ONE_DIV_TWO': lim((t - 1) // 2, nl), 'TWO_ADICITY': str(s2), 'MODULUS_BIT_SIZE': str(m.bit_length())}
            for tn, inh in TRAIT:
                a = outs['%s.ark.const.%s' % (f, tn)]; b = outs['%s.const.%s' % (f, inh)]
                if a != b: bad('%s.ark.const.%s' % (f, tn), a, 'differs from the inherent constant %s = %s' % (inh, b[:80]))
                if tn in exp and a != exp[tn]: bad('%s.ark.const.%s' % (f, tn), a, 'recomputed from the modulus: %s' % exp[tn])
            try:
                g = int(outs['%s.ark.const.GENERATOR' % f], 16); w = int(outs['%s.ark.const.TWO_ADIC_ROOT_OF_UNITY' % f], 16)
                if w != pow(g, t, m): bad('%s.ark.const.TWO_ADIC_ROOT_OF_UNITY' % f, '%x' % w, 'is not GENERATOR^TRACE')
            except ValueError: bad('%s.ark.const.GENERATOR' % f, outs['%s.ark.const.GENERATOR' % f], 'unparsable')
            for x in ('LARGE_SUBGROUP_ROOT_OF_UNITY', 'SMALL_SUBGROUP_BASE', 'SMALL_SUBGROUP_BASE_ADICITY'):
                if outs['%s.ark.const.%s' % (f, x)] != 'NONE': bad('%s.ark.const.%s' % (f, x), outs['%s.ark.const.%s' % (f, x)], 'the fields declare no small subgroup')
            sp = outs['%s.ark.const.SQRT_PRECOMP' % f]
            if m % 4 == 3: want = 'Case3Mod4 modulus_plus_one_div_four=' + lim((m + 1) // 4, nl)
            else:
                q2t = outs.get('%s.const.QUADRATIC_NON_RESIDUE_TO_TRACE' % f) or harness.run_script('ark', ['%s.const.QUADRATIC_NON_RESIDUE_TO_TRACE' % f])[0]
                want = 'TonelliShanks two_adicity=%d quadratic_nonresidue_to_trace=%s trace_of_modulus_minus_one_div_two=%s' % (s2, q2t, lim((t - 1) // 2, nl))
            if sp != want: bad('%s.ark.const.SQRT_PRECOMP' % f, sp, 'expected %s' % want)
        for bname, oo in (('ark', outs), ('min', mo)):
            try:
                qnr = int(oo['fp.const.QUADRATIC_NON_RESIDUE'], 16); mp = MOD['fp']
                if pow(qnr, (mp - 1) // 2, mp) != mp - 1: bad('fp.const.QUADRATIC_NON_RESIDUE', oo['fp.const.QUADRATIC_NON_RESIDUE'], 'is a square (build %s)' % bname)
                mq = MOD['fq']; z = int(oo['fq.const.ZETA'], 16)
                if pow(z, (mq - 1) // 2, mq) != mq - 1 or pow(z, 1 << 47, mq) != 1 or pow(z, 1 << 46, mq) == 1: bad('fq.const.ZETA', oo['fq.const.ZETA'], 'is not a primitive 2^47-th root of unity / non-square (build %s)' % bname)
                if oo['fq.const.SENTINEL'] not in ('UNSUPPORTED',) and int(oo['fq.const.SENTINEL'], 16) != (2**256 - 1) * pow(2**256, -1, mq) % mq:
                    bad('fq.const.SENTINEL', oo['fq.const.SENTINEL'], 'is not the all-ones Montgomery pattern (build %s)' % bname)
            except ValueError: bad('fp.const.QUADRATIC_NON_RESIDUE', str(oo)[:80], 'unparsable (build %s)' % bname)
    except RuntimeError as e:
        ctx.violation('harness build/run failed: %s' % str(e)[:500], {'stage': 'harness', 'log': str(e)[-3000:]}, {'stage': 'harness'}, found_input=False)
    ctx.cov['evaluations'] = neval
    ctx.cov['distinct_nontrivial'] = len({(s) for s in range(neval)}) if neval else 0
    ctx.cov['rule'] = 'every public field constant printed through the API of both builds and compared with the literal the extractor found; all are distinct and non-trivial (none is 0/1)'
    ctx.cov['samples'] += samples
    ctx.extra['constants_extracted'] = len(consts)
    for mm in mism:
        ctx.violation('API value of %s differs from the literal extracted from the source (extractor/translator tie broken)' % mm['op'],
                      {'stage': 'correspondence', **mm}, {'stage': 'correspondence', 'op': mm['op']}, found_input=True)
    # --- proof stage verdict
    if not st['regen_ok']:
        ctx.violation('translator failed on the current source', {'stage': 'translate', 'log': st.get('regen_log', '')[-3000:]}, {'stage': 'translate'}, found_input=False)
    elif not st['make_ok']:
        # search for the failing constant(s)
        bad = independent_recompute(consts)
        body = ('From D377 Require Import Props.C17.Defs Props.C17.Fq Props.C17.Fr Props.C17.Fp Props.C17.Curve Props.C17.FpExtra.\n'
                'Require Import List String. Import ListNotations.\n'
                'Eval vm_compute in ("@@FAIL", failing (fq_checks ++ fr_checks ++ fp_checks ++ curve_checks ++ fp_extra_checks)).\n')
        okd, o, _ = coq.make(['Props/C17/Fq.vo', 'Props/C17/Fr.vo', 'Props/C17/Fp.vo', 'Props/C17/Curve.vo', 'Props/C17/FpExtra.vo'])
        failing = []
        if okd:
            rc, o = coq.eval_file(body, 'c17_failing')
            failing = re.findall(r'"([A-Za-z0-9_.()/ ]+)"', o.split('@@FAIL', 1)[1]) if '@@FAIL' in o else []
        if failing or bad:
            for name in (failing or [b['constant'] for b in bad]):
                detail = [b for b in bad if name.split('.')[-1] in b['constant'] and name.split('.')[0] in b['constant']]
                ctx.violation('constant check %s evaluates to false in Coq (constant does not satisfy its defining equation)' % name,
                              {'stage': 'proof', 'failing_check': name, 'python_recomputation': detail, 'coq_log': st['make_log'][-1500:]},
                              {'stage': 'proof', 'check': name}, found_input=True)
        else:
            ctx.violation('Props/C17 no longer compiles (%s) and no failing constant was identified' % st['bad_file'],
                          {'stage': 'proof', 'theorem_file': st['bad_file'], 'coq_log': st['make_log'][-3000:]}, {'stage': 'proof', 'file': st['bad_file']}, found_input=False)
    if st['hygiene']:
        ctx.violation('forbidden vernacular in the Coq development: %s' % st['hygiene'][:5], {'stage': 'hygiene', 'items': st['hygiene']}, {'stage': 'hygiene'}, found_input=False)
    for t, ax in st.get('axioms', {}).items():
        extra = [a for a in ax if a not in coq.ALLOWED_AXIOMS]
        if extra:
            ctx.violation('theorem %s depends on axioms %s' % (t, extra), {'stage': 'axioms', 'theorem': t, 'axioms': extra}, {'stage': 'axioms', 'theorem': t}, found_input=False)
    ctx.assumptions += ['translator/consts.py renders the literals faithfully (guarded by the API correspondence above)',
                        'harness h_ark/h_min print what the API returns',
                        'small generators 22/5/15 and least non-residues 11/5 are the documented arkworks choices; primitivity and leastness are checked in Coq',
                        'the BLS12-377 engine constants of bls12_377.rs are covered under C16']
