"""C13 — R1CS gadgets compute what the native code computes, and are complete (honest synthesis)."""
from ..core import *
from .. import harness, gen, pyref, gadgets as G, coq, model
from ..curve import *
from ..gen import R

VO = ['Props/C13.vo', 'Tie/Gadgets.vo']
FILES = ['Props/C13.v', 'Tie/Gadgets.v', 'Proofs/GadgetProofs.v', 'Proofs/WrapperProofs.v', 'Proofs/WrapperNative.v', 'Model/Wrapper.v', 'Proofs/Codec.v', 'Proofs/Elligator.v']

def honest_cases(ctx, scale):
    rng = ctx.rng; pool = Pool('ark', rng.fork('pool'), n_rand=4 * scale)
    cases = []
    ss = [0, 8, 2, 4, Q - 1, Q - 2, 1, 3] + pool.encodable[:12] + [gen.rand_field(rng, Q) for _ in range(12 * scale)]
    for s in ss: cases.append(('r1.decode', '%x' % s, [s], None, ''))
    for r0 in [0, 1, Q - 1, 2, 5] + [gen.rand_field(rng, Q) for _ in range(10 * scale)]: cases.append(('r1.elligator', '%x' % r0, [r0], None, ''))
    for x in [0, 1, 4, ZETA_ := gen.ZETA, Q - 1] + [gen.rand_field(rng, Q) for _ in range(10 * scale)]: cases.append(('r1.isqrt', '%x' % x, [x], None, ''))
    return pool, cases

def native_agreement(ctx, pool, scale):
    """gadget output value == native output, through the implementation only (group ops, select, equality, scalar mul)"""
    rng = ctx.rng; fails = []; lines = []; meta = []
    for i in range(8 * scale):
        a = pool.pick(rng); b = pool.pick(rng)
        for op, nat in (('r1.add', 'el.add.ee'), ('r1.sub', 'el.sub.ee')):
            lines.append('%s witness %s %s' % (op, E(a), E(b))); lines.append('%s %s %s' % (nat, E(a), E(b))); meta.append(op)
        lines.append('r1.neg witness %s' % E(a)); lines.append('el.neg %s' % E(a)); meta.append('r1.neg')
        lines.append('r1.double witness %s' % E(a)); lines.append('el.double %s' % E(a)); meta.append('r1.double')
        k = [rng.bits(64) for _ in range(1 + rng.below(2))]
        lines.append('r1.scalar_mul witness %s %s' % (E(a), ','.join('%x' % v for v in k))); lines.append('el.mul_bigint %s %s' % (E(a), ','.join('%x' % v for v in k))); meta.append('r1.scalar_mul')
        lines.append('r1.encode witness %s' % E(a)); lines.append('el.enc.to_field %s' % E(a)); meta.append('r1.encode')
        lines.append('r1.is_eq witness %s %s' % (E(a), E(t2_translate(a)))); lines.append('el.eq %s %s' % (E(a), E(t2_translate(a)))); meta.append('r1.is_eq')
        lines.append('r1.is_eq witness %s %s' % (E(a), E(b))); lines.append('el.eq %s %s' % (E(a), E(b))); meta.append('r1.is_eq')
    out = harness.run_script('ark', lines)
    n = 0
    for j, op in enumerate(meta):
        g = G.parse_r1(out[2 * j]); nat = out[2 * j + 1]; n += 1
        ok = g.get('sat') == '1'
        if ok:
            v = g.get('raw') or g.get('val') or ''
            if op in ('r1.encode', 'r1.is_eq'): ok = v == nat
            else:
                try: ok = pyref.coset_eq(tuple(int(x, 16) for x in v.split(',')), pyref.aff(parseE(nat)))
                except Exception: ok = False
        if not ok:
            fails.append(('%s: gadget gives %s, native gives %s' % (lines[2 * j][:100], out[2 * j][:120], nat[:80]),
                          {'script': lines[2 * j:2 * j + 2], 'output': out[2 * j:2 * j + 2]}, {'class': 'value', 'op': op}))
    return n, fails

def scalar_mul_checks(ctx, pool, scale):
    """the scalar-multiplication gadget vs the Coq model (gscalar_mul_le over the translated AffineVar arithmetic) and vs the native result,
    for structured bit strings (0, 1, all ones, r-1, r, longer than the modulus) in witness / input / constant mode"""
    rng = ctx.rng; lines = []; mlines = []; nat = []
    limbsets = [[0], [1], [2], [2**64 - 1], [0, 1], [2**64 - 1, 2**64 - 1], [(R >> (64 * i)) & (2**64 - 1) for i in range(4)],
                [((R - 1) >> (64 * i)) & (2**64 - 1) for i in range(4)], [0, 0, 0, 0, 1], [rng.bits(64) for _ in range(5)], [1, 0, 0, 0, 0, 0, 0, 2**63]] + [[rng.bits(64) for _ in range(1 + rng.below(3))] for _ in range(2 * scale)]
    for i, l in enumerate(limbsets):
        c = [IDENT, T2REP, pool.base[0]][i % 3] if i < 6 else pool.pick(rng)
        if not pyref.valid(c): c = pool.base[0]
        x, y = pyref.aff(c); L = ','.join('%x' % v for v in l)
        for mode in ('witness', 'input', 'const')[: 3 if (i < 4 or len(l) > 4) else 1]:      # every mode for the short ones and for bit strings longer than 256 bits
            lines.append('r1.scalar_mul %s %s %s' % (mode, E(c), L)); nat.append('el.mul_bigint %s %s' % (E(c), L))
            mlines.append('g r1.scalar_mul %d %d %d %s' % (MODE_KIND[mode], x, y, ' '.join(str(v) for v in l)))
    hout = harness.run_script('ark', lines); nout = harness.run_script('ark', nat); mout = model.run_model(mlines)
    mism = []; fails = []
    for l, o, no, m in zip(lines, hout, nout, mout):
        d = G.parse_r1(o); v = d.get('raw') or d.get('val') or ''
        try: hv = tuple(int(t, 16) for t in v.split(','))
        except ValueError: hv = None
        if not m or m[0] != (1 if d.get('sat') == '1' else 0) or hv is None or list(hv) != m[1:3]:
            mism.append({'line': l, 'implementation': o[:300], 'model': m})
        try: want = pyref.aff(parseE(no))
        except Exception: want = None
        if d.get('sat') != '1' or hv is None or want is None or not pyref.coset_eq(hv, want):
            fails.append(('%s: the gadget gives %s, native scalar multiplication gives %s' % (l[:90], o[:100], no[:80]), {'script': [l], 'output': [o, no]}, {'class': 'value', 'op': 'r1.scalar_mul'}))
    return len(lines), mism, fails

def lazy_checks(ctx, scale):
    """all orders/repetitions of forcing on a lazy variable: constraints only appended, each conversion emitted at most once"""
    fails = []; lines = []; ops = []
    import itertools
    for n in range(0, 5):
        for w in itertools.product('ec', repeat=n):
            if n == 4 and ctx.rng.below(3): continue
            ops.append(''.join(w))
    G0 = 'af6f264422a797bdf65d3e521d79000cb029727f00000009c432aaaaaaaaaab,d661b0655477ae2e9c1817e3b1bc4d94dbb532f4e32ad8b963cadfa16d9e2b8,1,110b70498f22cec373a084d88ee09af6fd31ba6886ce8ed99fcaddf95fc8a9fb'
    for w in ops:
        lines.append('r1.lazy witness %s %s' % (G0, w or '-')); lines.append('r1.lazy.enc witness 8 %s' % (w or '-'))
    out = harness.run_script('ark', lines)
    for l, o in zip(lines, out):
        d = G.parse_r1(o)
        if d.get('sat') != '1' or 'steps' not in d:
            if 'UNSUPPORTED' in o or 'BADINPUT' in o: continue
            fails.append(('%s: %s' % (l[-40:], o[:100]), {'script': [l], 'output': [o]}, {'class': 'lazy', 'what': 'unsat'})); continue
        st = [int(x) for x in d['steps'].split(',')]
        w = l.split()[-1]; w = '' if w == '-' else w
        start_elt = l.startswith('r1.lazy witness')
        have_e, have_c = (start_elt, not start_elt)
        for i, ch in enumerate(w):
            grew = st[i + 1] > st[i]
            expect = (ch == 'c' and not have_c) or (ch == 'e' and not have_e)
            if st[i + 1] < st[i] or grew != expect:
                fails.append(('%s: constraint counts %s do not follow the once-only forcing rule' % (l[-30:], st), {'script': [l], 'output': [o]}, {'class': 'lazy', 'what': 'counts'})); break
            if ch == 'c': have_c = True
            if ch == 'e': have_e = True
    return len(lines), fails


HIST_CODE = {'e': 0, 'c': 1, 'v': 2, 'a': 3, 'A': 3, 'k': 9, 'p': 3, 's': 4, 'S': 4, 'j': 10, 'm': 4, 'd': 5, 'n': 6, 'q': 7, 'x': 8, 'i': 11, 'X': 0, 'Y': 0, 'Z': 0, 'W': 8}
MODE_KIND = {'const': 0, 'witness': 2, 'input': 3}

def parse_reads(s):
    """'c:<hex>;v:<x>,<y>[,z,t]' -> [('c', s) | ('v', (x, y)) | ('v', None)]"""
    out = []
    if s in ('-', ''): return out
    for r in s.split(';'):
        k, v = r.split(':', 1)
        if k == 'c':
            try: out.append(('c', int(v, 16)))
            except ValueError: out.append(('c', None))
        elif k in ('b', 'u'):
            out.append((k, int(v) if v in ('0', '1') else None))
        else:
            try:
                c = [int(x, 16) for x in v.split(',')]
                out.append(('v', (c[0], c[1]) if len(c) == 2 else pyref.aff(c)))
            except ValueError: out.append(('v', None))
    return out

def history_checks(ctx, pool, scale):
    """histories of wrapper operations on ONE variable (forcing the encoding / the element in every order, in-place and
    out-of-place group operations in between, reads at every point): implementation vs the Coq model (Model/Wrapper.v,
    extracted) and vs the same history on a native Element (the property predicate)."""
    rng = ctx.rng; fails = []; mism = []
    letters = 'ecvaAksSjdnpmqxiiuXWYZ'
    hists = ['i', 'u', 'ci', 'ic', 'iu', 'aiu', 'cui', 'c', 'v', 'cac', 'cdc', 'cAcv', 'ckc', 'csc', 'cSc', 'cjc', 'cnc', 'cpc', 'cmc', 'cqc', 'cxc', 'ecac', 'vcdcv', 'cvacvdc', 'ccaac', 'cdedc', 'vnvcnc', 'cacscdc',
             # clones are independent of the variable they were cloned from (seed C13n: clones sharing one memo cell)
             'Xc', 'cXc', 'vXvc', 'XdXcv', 'Wac', 'cWAcv', 'WSc', 'Wpc', 'Wi', 'Yc', 'vYvc', 'cYYc', 'Zc', 'cZcv', 'XWYZcv']
    for _ in range(10 * scale):
        n = 2 + rng.below(7)
        h = ''.join(rng.choice(letters) for _ in range(n))
        # make sure values are read after the last mutation
        hists.append(h + rng.choice(['c', 'v', 'cv', 'vc']))
    lines = []; mlines = []; nat = []; meta = []
    for h in hists:
        a = pool.pick(rng); b = pool.pick(rng)
        if not (pyref.valid(a) and pyref.valid(b)): continue
        ax, ay = pyref.aff(a); bx, by = pyref.aff(b)
        for mode in ('witness', 'input', 'const'):
            lines.append('r1.hist %s %s %s %s' % (mode, E(a), E(b), h))
            k = MODE_KIND[mode]
            mlines.append('g r1.hist %d %d %d %d %d %d %s' % (k, ax, ay, k, bx, by, ' '.join(str(HIST_CODE.get(c, 8)) for c in h)))
            nat.append('el.hist %s %s %s' % (E(a), E(b), h)); meta.append((h, mode, None))
        ss = pool.encodable + [0, 3, 1, Q - 1, gen.rand_field(rng, Q)]
        # the short histories see a valid encoding AND every kind of invalid one (negative, non-square, s = -1); the others a random pick
        for s in ([8, 1, 3, Q - 1] if len(h) <= 3 else [rng.choice(ss)]):
            for mode in ('witness', 'input'):
                lines.append('r1.hist.enc %s %x %s %s' % (mode, s, E(b), h))
                mlines.append('g r1.hist 1 %d 0 %d %d %d %s' % (s, MODE_KIND[mode], bx, by, ' '.join(str(HIST_CODE.get(c, 8)) for c in h)))
                nat.append('el.hist.enc %x %s %s' % (s, E(b), h)); meta.append((h, mode, s))
    hout = harness.run_script('ark', lines)
    nout = harness.run_script('ark', nat)
    mout = model.run_model(mlines)
    for l, nl, o, no, m, (h, mode, s) in zip(lines, nat, hout, nout, mout, meta):
        d = G.parse_r1(o)
        if 'sat' not in d or 'reads' not in d:
            if 'UNSUPPORTED' in o: continue
            if 'u' in h and 'err' in d and any(k == 'u' and v == 0 for k, v in parse_reads(no if no != 'ERR' else '-')):
                continue      # an enforced equality that does not hold natively: on constants ark-r1cs-std reports it as a synthesis error
            if d.get('sat') == '0' and 'err' in d and m and m[0] == 0:
                # synthesis stopped with an error after the system became unsatisfiable (e.g. DivisionByZero while doubling the
                # non-point decoded from an invalid encoding): model and implementation agree on the verdict; the native history must fail too
                if no != 'ERR':
                    fails.append(('%s: unsatisfied (%s) although the native history succeeds' % (l[:80], d.get('err')), {'script': [l, nl], 'output': [o, no]}, {'class': 'history', 'what': 'unsat'}))
                continue
            mism.append({'line': l, 'implementation': o, 'model': m, 'why': 'no sat/reads'})
            if no != 'ERR' and not no.startswith('PANIC'):
                fails.append(('%s: honest synthesis fails (%s) although the native history succeeds' % (l[:70], o[:80]), {'script': [l, nl], 'output': [o, no]},
                              {'class': 'history', 'what': 'error', 'err': d.get('err', '')}))
            continue
        sat = d['sat'] == '1'; reads = parse_reads(d['reads'])
        # (1) correspondence with the Coq model
        exp = []
        j = 1
        while isinstance(m, list) and j < len(m) and m[0] in (0, 1):
            if m[j] == 0: exp.append(('c', m[j + 1])); j += 2
            elif m[j] == 2: exp.append(('b', m[j + 1])); j += 2
            else: exp.append(('v', (m[j + 1], m[j + 2]))); j += 3
        if 'u' not in h and (not m or m[0] != (1 if sat else 0) or (sat and exp != reads)):       # enforce_equal has no model op: predicate only
            mism.append({'line': l, 'implementation': o[:400], 'model': m})
        # (2) the property: satisfied exactly when the native history exists, and every value read is the native one
        native_ok = no != 'ERR' and not no.startswith('PANIC')
        needs = any(c not in 'cx' for c in h)
        if s is not None and not native_ok:
            if sat and needs:
                fails.append(('%s: satisfied although the native decoding of %x fails' % (l[:60], s), {'script': [l, nl], 'output': [o, no]}, {'class': 'history', 'what': 'completeness'}))
            continue
        nreads = parse_reads(no)
        want_sat = all(v == 1 for k, v in nreads if k == 'u')        # enforce_equal: satisfiable exactly when the operands are equal natively
        nreads = [x for x in nreads if x[0] != 'u']
        if not want_sat:
            if sat: fails.append(('history %s on a %s variable: satisfied although an enforced equality does not hold natively' % (h, mode), {'script': [l, nl], 'output': [o, no]}, {'class': 'history', 'what': 'enforce'}))
            continue
        if not sat:
            fails.append(('%s: honest synthesis is unsatisfied (%s)' % (l[:80], o[:80]), {'script': [l, nl], 'output': [o, no]}, {'class': 'history', 'what': 'unsat'})); continue
        ok = len(nreads) == len(reads)
        if ok:
            for (k1, v1), (k2, v2) in zip(reads, nreads):
                if k1 != k2 or v1 is None or v2 is None: ok = False
                elif k1 in ('c', 'b'): ok = ok and v1 == v2
                else: ok = ok and pyref.coset_eq(v1, v2)
        if not ok:
            fails.append(('history %s on a %s variable: the gadget reads %s, the native history reads %s' % (h, mode, d['reads'][:200], no[:200]),
                          {'script': [l, nl], 'output': [o, no]}, {'class': 'history', 'what': 'value'}))
    ctx.extra['history_ops'] = {'histories': len(lines), 'letters': letters}
    return len(lines), mism, fails

def run_check(ctx):
    st = coq.proof_stage(ctx, 'Props.C13', VO, FILES)
    finish_proof(ctx, st)
    scale = 1 if ctx.tier == 'quick' else 40
    if getattr(ctx, 'changed', None) and ctx.tier == 'quick': scale = 5
    broken = []
    if not st['regen_ok']: broken.append(('translator failed', {'stage': 'translate'}))
    elif not st['make_ok']: broken.append(('Coq proof obligation no longer checks: %s' % st['bad_file'], {'stage': 'proof', 'theorem_file': st['bad_file'], 'coq_log': st['make_log'][-3000:]}))
    try:
        pool, cases = honest_cases(ctx, scale)
        n, mism, parsed, lines, hout = G.compare(cases)
        ctx.cov['evaluations'] += n; ctx.cov['distinct_nontrivial'] += len({l for l in lines if l.split()[2] not in ('0', '1')})
        ctx.cov['samples'] += [{'op': l[:100], 'implementation': o[:160]} for l, o in list(zip(lines, hout))[:4]]
        for m in mism[:20]: broken.append(('gadget model and implementation disagree on: %s' % m['line'][:140], {'stage': 'correspondence', **m}))
        n2, f2 = native_agreement(ctx, pool, scale); ctx.cov['evaluations'] += n2; ctx.cov['distinct_nontrivial'] += n2
        n3, f3 = lazy_checks(ctx, scale); ctx.cov['evaluations'] += n3; ctx.cov['distinct_nontrivial'] += n3
        n4, m4, f4 = history_checks(ctx, pool, scale); ctx.cov['evaluations'] += n4; ctx.cov['distinct_nontrivial'] += n4
        for m in m4[:20]: broken.append(('wrapper-history model and implementation disagree on: %s' % m['line'][:140], {'stage': 'correspondence', **m}))
        n6, m6, f6 = scalar_mul_checks(ctx, pool, scale); ctx.cov['evaluations'] += n6; ctx.cov['distinct_nontrivial'] += n6
        for m in m6[:10]: broken.append(('scalar-multiplication gadget model and implementation disagree on: %s' % m['line'][:140], {'stage': 'correspondence', **m}))
        f4 = f4 + f6
        from .. import surface
        n5, f5 = surface.c13_constants(ctx, pool); ctx.cov['evaluations'] += n5
        n7, f7 = G.equality_family(ctx.rng.fork('eqfam'), pool, scale, E, t2_translate, rescale, neg_pt); ctx.cov['evaluations'] += n7; ctx.cov['distinct_nontrivial'] += n7
        f7 = [('C13 equality gadgets: %s (%s)' % (desc, l[:110]), {'script': [l], 'output': [o]}, {'class': 'equality_representatives', 'kind': kind, 'op': l.split()[0]}) for kind, desc, l, o in f7]
        f3 = f3 + f4 + f5 + f7
    except RuntimeError as e:
        ctx.violation('harness or model failed: %s' % str(e)[:300], {'stage': 'build', 'log': str(e)[-3000:]}, {'stage': 'build'}, found_input=False); return
    # the property predicate on the implementation is evaluated on every run (value agreement with native code, lazy rule)
    for desc, replay, key in (f2 + f3)[:8]:
        ctx.violation('C13: ' + desc, {'stage': 'search', **replay}, key, found_input=True)
    # honest completeness: satisfied iff the native operation succeeds
    for (op, pargs, margs, hint, extra), d, l, o in zip(cases, parsed, lines, hout):
        if op == 'r1.decode':
            nat = pyref.decode_spec(margs[0]); sat = d.get('sat') == '1'
            if sat != (nat is not None):
                ctx.violation('honest in-circuit decode of %x: satisfied=%s but native decode %s' % (margs[0], sat, 'succeeds' if nat else 'fails'),
                              {'stage': 'search', 'script': [l], 'output': [o]}, {'class': 'completeness', 'op': op}, found_input=True)
    if broken and not ctx.violations:
        for desc, replay in broken[:5]:
            ctx.violation('C13 is no longer shown to hold — %s; no failing input found on the implementation' % desc, replay, {'stage': replay.get('stage'), 'line': replay.get('line', '')[:60]}, found_input=False)
    ctx.cov['rule'] = 'honest synthesis of every gadget in real constraint systems (ark-relations) vs the Coq gadget model and vs the native ops; all forcing orders of length <= 4 on a lazy variable; histories of wrapper operations (+= -= double_in_place negate + - select clone interleaved with compress_to_field/value reads) on one variable in every allocation mode vs Model/Wrapper.v and vs the native history'
    ctx.assumptions += ['the determinism of ark-r1cs-std 0.4 primitives assumed by Model/Gadgets.v (tied by correspondence with hint substitution)', 'Coq kernel', 'extraction']
