"""C14 — R1CS gadgets are sound against adversarial prover hints."""
from ..core import *
from .. import harness, gen, pyref, gadgets as G, coq
from ..curve import *

VO = ['Props/C14.vo', 'Tie/Gadgets.vo', 'Tie/GadgetsSign.vo']
FILES = ['Props/C14.v', 'Tie/Gadgets.v', 'Tie/GadgetsSign.v', 'Proofs/GadgetProofs.v']

def adversarial_cases(ctx, scale):
    rng = ctx.rng; pool = Pool('ark', rng.fork('pool'), n_rand=3 * scale); cases = []
    A = Q - 1; D = gen.D
    def dec_den(s): u1 = (1 - s * s) % Q; u2 = (u1 * u1 - 4 * D * s * s) % Q; return u2 * u1 * u1 % Q
    for x in [0, 1, 4, gen.ZETA, Q - 1, gen.rand_field(rng, Q)] + [gen.rand_field(rng, Q) for _ in range(2 * scale)]:
        for h in G.hint_set(rng, x): cases.append(('r1.isqrt', '%x' % x, [x], h, ''))
    for s in [Q - 1, 0, 8, 2, 4, 1, Q - 2] + pool.encodable[2:6] + [gen.rand_field(rng, Q) & ~1 for _ in range(3 * scale)]:
        for h in G.hint_set(rng, dec_den(s)): cases.append(('r1.decode', '%x' % s, [s], h, ''))
    for r0 in [0, 1, 5, gen.rand_field(rng, Q)]:
        r = gen.ZETA * r0 * r0 % Q
        x = (r + 1) * (A - 2 * D) * ((D * r - (D - A)) * ((D - A) * r - D)) % Q
        for h in G.hint_set(rng, x): cases.append(('r1.elligator', '%x' % r0, [r0], h, ''))
    # encode gadget under every hint: den = u_1 (a - d) x^2 with u_1 = (x + T)(x - T), T = x y
    for c in [IDENT, T2REP] + pool.base[:3] + pool.derived[:2 * scale]:
        if not pyref.valid(c): continue
        x, y = pyref.aff(c); T = x * y % Q
        den = (x + T) * (x - T) % Q * ((A - D) % Q) % Q * x % Q * x % Q
        for h in G.hint_set(rng, den): cases.append(('r1.encode', E(c), [x, y], h, ''))
    return pool, cases

def witness_cases(ctx, pool, scale):
    """new_witness with adversarial coordinates / encodings / hints (the enc= and coords= options of the harness)"""
    rng = ctx.rng; cases = []
    P = pool.base[0]; a = pyref.aff(P)
    Pn = pool.base[3 % len(pool.base)]
    s_true = 8
    for (px, py), s, h in [(a, 8, None), (a, Q - 1, (1, 1)), (a, Q - 1, (1, Q - 1)), (pyref.aff(Pn), 8, None), ((0, 1), Q - 1, (1, 1)),
                           ((5, 7), 8, None), (a, 0, None), ((0, 1), 0, (1, 1)), ((0, 1), 0, (1, Q - 1))]:
        cases.append(('r1.new', E(P), [px, py, s], h, ' enc=%x coords=%x,%x' % (s, px, py)))
    # off-curve coordinates on the line through the origin and a decodable point (they satisfy the projective equality
    # x_P*y_D = x_D*y_P used by is_eq): the origin itself and scalar multiples k*(x,y), with the encoding of the true point
    encs = list(zip(pool.base[2:2 + len(pool.encodable)], pool.encodable))  # el.dec results follow the constants/elligator outputs
    pts = []
    for sv in pool.encodable[1:4] + [8]:
        d = pyref.decode_spec(sv)
        if d is not None: pts.append((d, sv))
    for (x, y), sv in pts[:3 + scale]:
        for k in [0, 2, Q - 2, gen.rand_field(rng, Q)]:
            cases.append(('r1.new', E(P), [k * x % Q, k * y % Q, sv], None, ' enc=%x coords=%x,%x' % (sv, k * x % Q, k * y % Q)))
    for sv in (0, 8):
        cases.append(('r1.new', E(P), [0, 0, sv], None, ' enc=%x coords=0,0' % sv))
    # the AffinePoint entry point of witness allocation, offered on-curve points OUTSIDE the group (P + T4 with T4 of order 4, T4 itself,
    # the order-2 point is the other identity representative), off-curve pairs, and honest points
    i4 = pyref.sqrt(Q - 1); T4 = (i4, 0)
    offers = [T4, ((Q - i4) % Q, 0), (0, Q - 1), (0, 1), (5, 7), (0, 0)]
    for (x, y), sv in pts[:2 + scale]:
        offers += [(x, y), pyref.ed_add((x, y), T4), pyref.ed_add((x, y), pyref.ed_neg(T4)), ((Q - x) % Q, (Q - y) % Q)]
    for (x, y) in offers:
        cases.append(('r1.new_affine', '%x,%x' % (x, y), [x, y], None, ''))
    return cases

def classify(op, margs, hint):
    """structured key of a soundness failure (matched against known_findings.json)"""
    A = Q - 1; D = gen.D
    arg = None
    if op == 'r1.isqrt': arg = margs[0]
    elif op in ('r1.decode', 'r1.new'):
        s = margs[-1] if op == 'r1.new' else margs[0]; u1 = (1 - s * s) % Q; arg = (u1 * u1 - 4 * D * s * s) * u1 * u1 % Q
    key = {'gadget': op.split('.')[1], 'input_class': 'isqrt_arg=0' if arg == 0 else 'isqrt_arg!=0',
           'hint_class': 'none' if hint is None else ('flag=%d,y^2=1' % hint[0] if hint[1] * hint[1] % Q == 1 else 'flag=%d,other' % hint[0])}
    return key

def run_check(ctx):
    st = coq.proof_stage(ctx, 'Props.C14', VO, FILES)
    finish_proof(ctx, st)
    scale = 1 if ctx.tier == 'quick' else 30
    if getattr(ctx, 'changed', None) and ctx.tier == 'quick': scale = 4
    broken = []
    if not st['regen_ok']: broken.append(('translator failed', {'stage': 'translate'}))
    elif not st['make_ok']: broken.append(('Coq proof obligation no longer checks: %s' % st['bad_file'], {'stage': 'proof', 'theorem_file': st['bad_file'], 'coq_log': st['make_log'][-3000:]}))
    try:
        pool, cases = adversarial_cases(ctx, scale)
        cases += witness_cases(ctx, pool, scale)
        n, mism, parsed, lines, hout = G.compare(cases)
    except RuntimeError as e:
        ctx.violation('harness or model failed: %s' % str(e)[:300], {'stage': 'build', 'log': str(e)[-3000:]}, {'stage': 'build'}, found_input=False); return
    ctx.cov['evaluations'] += n; ctx.cov['distinct_nontrivial'] += len(set(lines))
    ctx.cov['samples'] += [{'op': l[:140], 'implementation': o[:160]} for l, o in list(zip(lines, hout))[:5]]
    hist = {}
    for (op, pargs, margs, hint, extra), d in zip(cases, parsed):
        k = '%s sat=%s' % (op, d.get('sat')); hist[k] = hist.get(k, 0) + 1
    ctx.extra['outcomes'] = hist
    for m in mism[:20]: broken.append(('gadget model and implementation disagree on: %s' % m['line'][:140], {'stage': 'correspondence', **m}))
    # property predicate on the implementation, on every run: satisfied => output equals the native result
    nfail = 0
    for (op, pargs, margs, hint, extra), d, l, o in zip(cases, parsed, lines, hout):
        if d.get('sat') != '1': continue
        v = d.get('raw') or d.get('val') or ''
        bad = None
        try: hv = [int(x, 16) for x in v.split(',')]
        except ValueError: hv = None
        if op == 'r1.isqrt':
            x = margs[0]
            if hv is None or not pyref.contract_ok(1, x, hv[0], hv[1]): bad = 'isqrt(%x) accepts (%s), which violates the four-case contract' % (x, v)
        elif op == 'r1.decode':
            nat = pyref.decode_spec(margs[0])
            if nat is None: bad = 'in-circuit decode accepts the invalid encoding %x and returns (%s)' % (margs[0], v)
            elif hv is None or not pyref.coset_eq(tuple(hv), nat): bad = 'in-circuit decode of %x returns (%s), native gives %s' % (margs[0], v, nat)
        elif op == 'r1.elligator':
            nat = pyref.elligator_spec(margs[0])
            if hv is None or not pyref.coset_eq(tuple(hv), nat): bad = 'in-circuit elligator(%x) returns (%s), native gives %s' % (margs[0], v, nat)
        elif op == 'r1.encode':
            nat = pyref.encode_spec((margs[0], margs[1]))
            if hv is None or nat is None or hv[0] != nat: bad = 'in-circuit encode of (%x,%x) returns %s, native gives %s' % (margs[0], margs[1], v, ('%x' % nat) if nat is not None else None)
        elif op == 'r1.new_affine':
            px, py = margs
            if not pyref.valid([px, py, 1, px * py % Q]): bad = 'witness allocation from an AffinePoint accepts the coordinates (%x,%x), which are not a group element, and returns (%s)' % (px, py, v)
            elif hv is None or not pyref.coset_eq(tuple(hv), (px, py)): bad = 'witness allocation from the AffinePoint (%x,%x) returns (%s)' % (px, py, v)
        elif op == 'r1.new':
            px, py, s = margs; nat = pyref.decode_spec(s)
            if nat is None: bad = 'witness allocation accepts the invalid encoding %x (offered coordinates %x,%x) and returns (%s)' % (s, px, py, v)
            elif hv is None or not pyref.coset_eq(tuple(hv), nat) or not pyref.coset_eq((px, py), nat): bad = 'witness allocation returns (%s) for coordinates (%x,%x), encoding %x' % (v, px, py, s)
        if bad:
            nfail += 1
            ctx.violation('C14: ' + bad, {'stage': 'search', 'script': [l], 'output': [o], 'replay_cmd': 'printf "%s\\n" | /verif/.cache/target-ark/release/h_ark' % l}, classify(op, margs, hint), found_input=True)
    # an invalid encoding can never be used as an element in circuit, whatever operation first needs it and whatever the hints: every wrapper
    # operation on a variable allocated from an invalid field element (negative, non-square, s = -1), honest hints and the hints (true, +-1)
    try:
        b0 = pool.base[0]; inv = [1, 3, 2, 4, Q - 1, Q - 2]
        inv = [s_ for s_ in inv if pyref.decode_spec(s_) is None]
        hl = []; hm = []
        for s_ in inv:
            for h in ('i', 'u', 'q', 'a', 'e', 'v', 'd', 'n', 'iu', 'qc'):
                for mode in ('witness', 'input'):
                    for hint in (None, (1, 1), (1, Q - 1)):
                        hl.append('r1.hist.enc %s %x %s %s%s' % (mode, s_, E(b0), h, '' if hint is None else ' hint=%d,%x' % hint)); hm.append((s_, h, hint))
        ho = harness.run_script('ark', hl)
        ctx.cov['evaluations'] += len(hl); ctx.cov['distinct_nontrivial'] += len(hl)
        for l, o, (s_, h, hint) in zip(hl, ho, hm):
            d = G.parse_r1(o)
            if d.get('sat') == '1':
                key = classify('r1.decode', [s_], hint)
                ctx.violation('C14: %s is satisfied although %x is not a valid encoding (the operation needs the element)' % (l[:80], s_),
                              {'stage': 'search', 'script': [l], 'output': [o]}, key, found_input=True)
    except RuntimeError as e:
        ctx.violation('harness failed: %s' % str(e)[:300], {'stage': 'build', 'log': str(e)[-3000:]}, {'stage': 'build'}, found_input=False)
    # the sign gadgets must be bound to the UNIQUE bit decomposition: after the honest synthesis the harness overwrites every window of 253
    # boolean witnesses the gadget allocated with the bits of n + p (n the integer they denote; possible when n < 2^253 - p), re-solves the
    # dependent witnesses and evaluates the constraint matrices (harness op r1.forge).  Inputs stay fixed; a satisfied forged assignment with a
    # different output, or for an input the native operation rejects, is a soundness failure.
    try:
        bound = (1 << 253) - Q; fr = ctx.rng.fork('forge'); fl = []
        small = [0, 1, 2, 3, bound - 1, bound - 2] + [fr.below(bound) for _ in range(2 + 2 * scale)]
        for x in small:
            for g_ in ('is_negative', 'is_nonnegative', 'abs'):
                fl.append('r1.forge %s %s %x' % (g_, 'witness' if (x + len(fl)) % 2 else 'input', x))
        negs = []
        tries = 0
        while len(negs) < 2 + scale and tries < 4000:
            tries += 1; s0 = fr.below(Q)
            if s0 & 1 == 0 and pyref.decode_spec(s0) is not None and Q - s0 < bound: negs.append(Q - s0)
        for s_ in negs + [bound - 1 if (bound - 1) & 1 else bound - 2]:
            fl.append('r1.forge decode witness %x' % s_); fl.append('r1.forge decode input %x' % s_)
        for s_ in pool.encodable[:3 + scale]: fl.append('r1.forge decode witness %x' % s_)
        for c in pool.base[:3] + pool.derived[:3 + 2 * scale]:
            if pyref.valid(c): fl.append('r1.forge encode witness %s' % E(c))
        for r0 in [0, 1, 5] + [fr.below(Q) for _ in range(scale)]: fl.append('r1.forge elligator witness %x' % r0)
        fo = harness.run_script('ark', fl)
        ctx.cov['evaluations'] += len(fl); ctx.cov['distinct_nontrivial'] += len(set(fl))
        nf = 0
        for l, o in zip(fl, fo):
            d = G.parse_r1(o)
            nf += int(d.get('nforge', '0') or 0) if str(d.get('nforge', '0')).isdigit() else 0
            if d.get('unsound') == '1':
                ctx.violation('C14: %s — a forged bit decomposition (the bits of n + p instead of n) satisfies the constraints: %s' % (l[:90], o[o.find('unsound'):][:200]),
                              {'stage': 'search', 'script': [l], 'output': [o], 'replay_cmd': 'printf "%s\\n" | /verif/.cache/target-ark/release/h_ark' % l},
                              {'gadget': l.split()[1], 'class': 'non_unique_bit_decomposition'}, found_input=True)
            elif 'unsound=0' not in o:
                broken.append(('forgery op failed: %s -> %s' % (l[:80], o[:80]), {'stage': 'correspondence', 'line': l, 'implementation': o}))
        ctx.extra['bit_forgeries_tried'] = nf
    except RuntimeError as e:
        ctx.violation('harness failed: %s' % str(e)[:300], {'stage': 'build', 'log': str(e)[-3000:]}, {'stage': 'build'}, found_input=False)
    # the equality gadgets between different representatives of one element (a decoded variable against a constant holding the 2-torsion
    # translate / a rescaling): an enforced (in)equality may be satisfiable only when it holds natively
    try:
        n_e, f_e = G.equality_family(ctx.rng.fork('eqfam'), pool, scale, E, t2_translate, rescale, neg_pt)
        ctx.cov['evaluations'] += n_e; ctx.cov['distinct_nontrivial'] += n_e
        for kind, desc, l, o in f_e:
            if kind != 'unsound': continue
            ctx.violation('C14: %s (%s)' % (desc, l[:110]), {'stage': 'search', 'script': [l], 'output': [o]}, {'gadget': l.split()[0], 'class': 'equality_representatives'}, found_input=True)
    except RuntimeError as e:
        ctx.violation('harness failed: %s' % str(e)[:300], {'stage': 'build', 'log': str(e)[-3000:]}, {'stage': 'build'}, found_input=False)
    if broken and not ctx.violations:
        for desc, replay in broken[:5]:
            ctx.violation('C14 is no longer shown to hold — %s; no failing input (beyond the recorded finding) found on the implementation' % desc, replay,
                          {'stage': replay.get('stage'), 'line': replay.get('line', '')[:60]}, found_input=False)
    ctx.cov['rule'] = 'for each gadget input, every hint (flag, y) with y in {0, ±1, ±sqrt(1/x), ±sqrt(zeta/x), random} through the hint-override hook; witness allocation with off-curve / mismatching coordinates and encodings; non-unique bit decompositions forged into every 253-bit window of the sign gadgets; distinct by op line'
    ctx.assumptions += ['determinism of ark-r1cs-std 0.4 primitives (every non-hint witness is forced by its constraints) — assumed by Model/Gadgets.v, supported by the correspondence over the hint set',
                        'Coq kernel', 'extraction', 'known_findings.json lists the isqrt(0)/(true, ±1) class; any other unsound acceptance is reported']
