"""C08 — equality, hashing and identity tests are mutually coherent."""
from ..core import *
from .. import harness, gen, pyref, corr
from ..curve import *
from .. import surface

VO = ['Props/C08.vo']
FILES = ['Props/C08.v', 'Props/C03.v', 'Proofs/Codec.v', 'Proofs/Projective.v']

def families(ctx, build, scale):
    pool = Pool(build, ctx.rng.fork('pool-' + build), n_rand=5 * scale)
    return pool, [[c] + pool.reps(c, ctx.rng) for c in pool.all]

def build_scripts(ctx, scale):
    scripts = {}
    for b in ('ark', 'min'):
        pool, fam = families(ctx, b, scale); lines = []
        for f in fam:
            for c in f:
                lines.append('el.is_identity %s' % E(c)); lines.append('el.eq_identity %s' % E(c))
                if b == 'ark':
                    lines += ['el.hash %s' % E(c), 'el.is_zero %s' % E(c), 'el.eq_default %s' % E(c), 'af.hash %s' % Af(pyref.aff(c)),
                              'af.is_zero %s' % Af(pyref.aff(c)), 'af.xy %s' % Af(pyref.aff(c))]
            lines.append('el.eq %s %s' % (E(f[0]), E(f[1]))); lines.append('el.eq %s %s' % (E(f[0]), E(ctx.rng.choice(fam)[0])))
            if b == 'ark': lines.append('af.eq %s %s' % (Af(pyref.aff(f[0])), Af(pyref.aff(f[1]))))
        scripts[b] = lines
    return scripts

def search(ctx, scale, hints):
    fails = []
    for b in ('ark', 'min'):
        pool, fam = families(ctx, b, scale)
        lines = []; meta = []
        for i, f in enumerate(fam):
            for c in f:
                ops = ['el.enc', 'el.is_identity', 'el.eq_identity'] + (['el.hash', 'el.is_zero', 'el.eq_default', 'af.hash', 'af.is_zero'] if b == 'ark' else [])
                for op in ops:
                    lines.append('%s %s' % (op, Af(pyref.aff(c)) if op.startswith('af.') else E(c))); meta.append((i, op, c))
        out = harness.run_script(b, lines)
        byfam = {}
        for (i, op, c), o in zip(meta, out): byfam.setdefault((i, op), []).append((c, o))
        for (i, op), l in byfam.items():
            vals = {o for _, o in l}
            if len(vals) > 1:
                cls = 'hash' if 'hash' in op else ('identity' if op != 'el.enc' else 'encoding')
                fails.append(('%s differs across representations of one element: %s (build %s)' % (op, sorted(vals)[:2], b),
                              {'build': b, 'script': ['%s %s' % (op, E(c)) for c, _ in l[:2]], 'output': [o for _, o in l[:2]]}, {'class': cls, 'build': b, 'op': op}))
        # identity predicates agree with each other
        for i, f in enumerate(fam):
            preds = {op: byfam[(i, op)][0][1] for op in ('el.is_identity', 'el.eq_identity', 'el.is_zero', 'el.eq_default') if (i, op) in byfam}
            if len(set(preds.values())) > 1:
                fails.append(('identity predicates disagree on %s: %s (build %s)' % (E(f[0]), preds, b), {'build': b, 'element': E(f[0]), 'predicates': preds}, {'class': 'identity', 'build': b}))
        # eq iff same encoding
        lines = []; meta = []
        for _ in range(40 * scale):
            f1 = ctx.rng.choice(fam); f2 = ctx.rng.choice(fam) if ctx.rng.below(2) else f1
            a = ctx.rng.choice(f1); c = ctx.rng.choice(f2)
            lines += ['el.eq %s %s' % (E(a), E(c)), 'el.enc %s' % E(a), 'el.enc %s' % E(c)]
        out = harness.run_script(b, lines)
        for j in range(0, len(lines), 3):
            if (out[j] == '1') != (out[j + 1] == out[j + 2]):
                fails.append(('equality %s but encodings %s / %s (build %s)' % (out[j], out[j + 1], out[j + 2], b), {'build': b, 'script': lines[j:j + 3], 'output': out[j:j + 3]}, {'class': 'eq_vs_enc', 'build': b}))
        # the same for affine points: eq iff same serialisation, over pairs drawn within one family (both coset representatives) and across
        if b == 'ark':
            lines = []
            afam = [[pyref.aff(c) for c in f] + [tuple((Q - v) % Q for v in pyref.aff(f[0]))] for f in fam]
            for _ in range(40 * scale):
                f1 = ctx.rng.choice(afam); f2 = ctx.rng.choice(afam) if ctx.rng.below(3) == 0 else f1
                a = ctx.rng.choice(f1); c = ctx.rng.choice(f2)
                lines += ['af.eq %s %s' % (Af(a), Af(c)), 'af.ser %s' % Af(a), 'af.ser %s' % Af(c)]
            for z in ((0, 1), (0, Q - 1)):
                for w in ((0, 1), (0, Q - 1)): lines += ['af.eq %s %s' % (Af(z), Af(w)), 'af.ser %s' % Af(z), 'af.ser %s' % Af(w)]
            out = harness.run_script(b, lines)
            for j in range(0, len(lines), 3):
                if (out[j] == '1') != (out[j + 1] == out[j + 2]):
                    fails.append(('affine equality %s but serialisations %s / %s (build %s)' % (out[j], out[j + 1], out[j + 2], b), {'build': b, 'script': lines[j:j + 3], 'output': out[j:j + 3]}, {'class': 'af_eq_vs_enc', 'build': b}))
    return fails

def always(ctx, scale):
    return surface.c08_printers(ctx, Pool('ark', ctx.rng.fork('surf'), n_rand=3), scale)

def run_check(ctx):
    run_property(ctx, 'Props.C08', VO, FILES, build_scripts, search, 'C08 (equality/hash/identity coherence) is no longer shown to hold', always=always)