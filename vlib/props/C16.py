"""C16 (partial) — the BLS12-377 engine over the crate's own fields equals the reference engine."""
from ..core import *
from .. import harness, gen, coq
from ..curve import finish_proof
from ..gen import Q

VO = ['Props/C16.vo']
FILES = ['Props/C16.v']

def run_check(ctx):
    st = coq.proof_stage(ctx, 'Props.C16', VO, FILES)
    finish_proof(ctx, st)
    scale = 1 if ctx.tier == 'quick' else 40
    if getattr(ctx, 'changed', None) and ctx.tier == 'quick': scale = 5
    rng = ctx.rng
    sc = [0, 1, 2, 3, Q - 1, Q - 2, (Q - 1) // 2, 2**64 - 1, 2**64, 2**128 + 1, 2**252] + [gen.rand_field(rng, Q) for _ in range(6 * scale)]
    lines = ['bls.g1.gen', 'bls.g2.gen', 'bls.g1.zero']
    for a in sc: lines += ['bls.g1.mul %x' % a, 'bls.g2.mul %x' % a]
    pairs = [(1, 1), (0, 1), (1, 0), (2, 3), (6, 1), (1, 6), (3, 2), (Q - 1, 1), (1, Q - 1), (Q - 1, Q - 1)]
    for _ in range(3 * scale):
        a, b = gen.rand_field(rng, Q), gen.rand_field(rng, Q); pairs += [(a, b), (a * b % Q, 1), (1, a * b % Q)]
    for a, b in pairs: lines.append('bls.pair %x %x' % (a, b))
    for a, b in pairs[:2] + pairs[-1:]: lines.append('bls.pair.raw %x %x' % (a, b))
    for a in sc[:8]: lines += ['bls.g1.cofactor %x' % a, 'bls.g2.cofactor %x' % a]
    # the target field as a field: every Frobenius power 0..=12 and the tower arithmetic, on pairing outputs and on sums of them
    for k in range(13): lines.append('bls.gt.frobenius %x %x %x' % (k, pairs[k % len(pairs)][0] or 2, pairs[k % len(pairs)][1] or 3))
    for a, b in pairs[:3]: lines.append('bls.gt.field_ops %x %x %x' % (a or 2, b or 3, 5))
    # serialised points exchanged between the engines: valid, invalid, flag patterns
    for i in range(6 * scale):
        b = rng.bytes(48 if i % 2 == 0 else 96); lines.append(('bls.g1.roundtrip %s' if i % 2 == 0 else 'bls.g2.roundtrip %s') % b.hex())
    # G1 curve points OUTSIDE the prime-order subgroup, serialised: the low-order points (0, ±1), (-1, 0) and cofactor-torsion points [r]P
    # (P a curve point with x = 2, 3, ...): a validating deserialiser must treat them as the reference engine does
    from .. import fieldcorr as _fc
    P_ = _fc.MOD['fp']; R_ = _fc.MOD['fr']
    def _add(A, B):
        if A is None: return B
        if B is None: return A
        (x1, y1), (x2, y2) = A, B
        if x1 == x2 and (y1 + y2) % P_ == 0: return None
        l = (3 * x1 * x1 * pow(2 * y1, -1, P_)) % P_ if A == B else ((y2 - y1) * pow(x2 - x1, -1, P_)) % P_
        x3 = (l * l - x1 - x2) % P_; return (x3, (l * (x1 - x3) - y1) % P_)
    def _mul(k, A):
        acc = None
        while k:
            if k & 1: acc = _add(acc, A)
            A = _add(A, A); k >>= 1
        return acc
    def _ser(pt):
        x, y = pt; b = bytearray(x.to_bytes(48, 'little'))
        if y > (P_ - y) % P_: b[47] |= 0x80
        return bytes(b).hex()
    outside = [(0, 1), (0, P_ - 1), (P_ - 1, 0)]
    xx = 2
    while len(outside) < 3 + 2 + scale and xx < 200:
        y2 = (xx ** 3 + 1) % P_
        if pow(y2, (P_ - 1) // 2, P_) == 1:
            # Tonelli-Shanks (p - 1 = 2^46 * t, 15 generates the multiplicative group)
            S_ = 0; t_ = P_ - 1
            while t_ % 2 == 0: t_ //= 2; S_ += 1
            c_ = pow(15, t_, P_); y = pow(y2, (t_ + 1) // 2, P_); b_ = pow(y2, t_, P_); m_ = S_
            while b_ != 1:
                i_ = 0; w_ = b_
                while w_ != 1: w_ = w_ * w_ % P_; i_ += 1
                g_ = pow(c_, 1 << (m_ - i_ - 1), P_); y = y * g_ % P_; c_ = g_ * g_ % P_; b_ = b_ * c_ % P_; m_ = i_
            if y * y % P_ == y2:
                t = _mul(R_, (xx, y))
                if t is not None: outside.append(t)
        xx += 1
    for pt in outside: lines.append('bls.g1.roundtrip ' + _ser(pt))
    lines += ['bls.g1.roundtrip ' + '00' * 47 + '40', 'bls.g1.roundtrip ' + 'ff' * 48, 'bls.g1.roundtrip 00', 'bls.g2.roundtrip ' + '00' * 95 + '40']
    try:
        out = harness.run_script('ark', lines)
    except RuntimeError as e:
        ctx.violation('harness failed: %s' % str(e)[:300], {'stage': 'build', 'log': str(e)[-3000:]}, {'stage': 'build'}, found_input=False); return
    vals = {}
    ndiff = 0
    for l, o in zip(lines, out):
        t = dict(x.split('=', 1) for x in o.split() if '=' in x)
        if 'ours' not in t or 'ref' not in t or t['ours'] != t['ref']:
            ndiff += 1
            ctx.violation('the crate\'s engine and the reference engine differ on %s: %s' % (l, o[:200]), {'stage': 'differential', 'script': [l], 'output': [o]},
                          {'class': 'engine_differs', 'op': l.split()[0]}, found_input=True)
            if ndiff > 6: break
        vals[l] = t.get('ours')
    # bilinearity and non-degeneracy of the crate's engine on the sampled scalars
    for a, b in pairs:
        k = 'bls.pair %x %x' % (a, b); k2 = 'bls.pair %x %x' % (a * b % Q, 1)
        if k2 in vals and vals[k] != vals[k2]:
            ctx.violation('e(%x G1, %x G2) differs from e(G1,G2)^(ab)' % (a, b), {'stage': 'bilinearity', 'script': [k, k2], 'output': [vals[k], vals[k2]]}, {'class': 'bilinear'}, found_input=True)
    if vals.get('bls.pair 1 1') == vals.get('bls.pair 0 1'):
        ctx.violation('e(G1,G2) equals the identity of GT (degenerate pairing)', {'stage': 'nondegenerate', 'script': ['bls.pair 1 1', 'bls.pair 0 1']}, {'class': 'degenerate'}, found_input=True)
    ctx.cov['evaluations'] += len(lines); ctx.cov['distinct_nontrivial'] += len(set(lines)) - 3
    ctx.cov['samples'] += [{'op': l, 'output': o[:160]} for l, o in list(zip(lines, out))[:4]]
    ctx.cov['rule'] = 'generators, scalar multiples (boundary + random scalars), pairings (incl. triples (a,b),(ab,1),(1,ab)), and serialised points (valid/invalid/flag patterns) through both engines; byte-identical outputs required'
    if st['regen_ok'] and not st['make_ok'] and not ctx.violations:
        # which constant?  evaluate the check tables
        body = ('From D377 Require Import Props.C17.Defs.\nRequire Import List String. Import ListNotations.\n')
        ctx.violation('C16 is no longer shown to hold — Coq proof obligation no longer checks: %s (a configuration constant differs from the reference or fails its defining equation); the two engines agree on every op tried' % st['bad_file'],
                      {'stage': 'proof', 'theorem_file': st['bad_file'], 'coq_log': st['make_log'][-3000:]}, {'stage': 'proof', 'file': st['bad_file']}, found_input=False)
    ctx.assumptions += ['ark_ec::bls12::Bls12<Config> is generic code determined by the configuration constants and the field implementations (not modelled)',
                        'bilinearity/non-degeneracy of the reference engine are classical and not re-proved', 'translator/consts.py', 'Coq kernel + vm_compute']
