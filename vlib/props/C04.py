"""C04 — every form of addition, subtraction and negation computes the group law."""
from ..core import *
from .. import harness, gen, pyref, corr
from ..curve import *
from .. import surface

VO = ['Props/C04.vo']
FILES = ['Props/C04.v', 'Tie/Dep.v', 'Proofs/EdwardsLaw.v', 'Proofs/Projective.v', 'Proofs/Final.v', 'Tie/Curve.v', 'Proofs/Instance.v']

def forms(build):
    """(op, arg kinds, python reference) for every add/sub/neg/double form in the model's table"""
    sg = corr.sigs(); out = []
    for (b, op), k in sg.items():
        if b != corr.BUILD_ID[build]: continue
        base = op.split('.')[1] if '.' in op else ''
        if op.split('.')[0] not in ('el', 'af'): continue
        if base in ('add', 'add_assign', 'sub', 'sub_assign', 'neg', 'negate', 'double', 'double_in_place', 'sum'):
            out.append((op, k))
    return out

def arg(kind, c):
    return E(c) if kind == 'E' else Af(pyref.aff(c))

def special_pairs(pool, rng):
    P = pool.base[0]; Qp = pool.base[2 % len(pool.base)]; D2 = pool.derived[0]
    ps = [(IDENT, IDENT), (IDENT, P), (P, IDENT), (T2REP, P), (P, T2REP), (T2REP, T2REP), (P, neg_pt(P)), (P, P), (P, t2_translate(P)),
          (t2_translate(P), neg_pt(P)), (D2, D2), (D2, neg_pt(D2)), (D2, Qp), (rescale(P, 5), Qp), (P, t2_translate(neg_pt(P)))]
    return ps

def build_scripts(ctx, scale):
    scripts = {}
    for b in ('ark', 'min'):
        pool = Pool(b, ctx.rng.fork('pool-' + b), n_rand=6 * scale)
        lines = []
        for op, k in forms(b):
            if k in ('EE', 'EA', 'AE', 'AA'):
                pairs = special_pairs(pool, ctx.rng) + [(pool.pick(ctx.rng), pool.pick(ctx.rng)) for _ in range(6 * scale)]
                for p, q2 in pairs: lines.append('%s %s %s' % (op, arg(k[0], p), arg(k[1], q2)))
            elif k in ('E', 'A'):
                for p in [IDENT, T2REP] + [pool.pick(ctx.rng) for _ in range(6 * scale)]: lines.append('%s %s' % (op, arg(k, p)))
            elif k in ('X', 'Y'):
                for l in [[pool.pick(ctx.rng) for _ in range(n)] for n in (0, 1, 2, 3, 5)] + pool.batches(ctx.rng):
                    lines.append('%s %s' % (op, ';'.join(arg('E' if k == 'X' else 'A', c) for c in l) if l else '-'))
        scripts[b] = lines
    return scripts

def programs(ctx, build, n_prog, length):
    """random straight-line programs mixing all operator forms, run level by level so that model and implementation
    can be compared after every step; returns failures of the group-law predicate on the implementation"""
    pool = Pool(build, ctx.rng.fork('prog-' + build), n_rand=4)
    fs = [f for f in forms(build) if f[1] in ('EE', 'EA', 'AE', 'AA', 'E', 'A')]
    fails = []
    cur = [(pool.pick(ctx.rng)) for _ in range(n_prog)]
    ref = [pyref.aff(c) for c in cur]
    for step in range(length):
        lines = []; exp = []
        for i in range(n_prog):
            op, k = ctx.rng.choice(fs); other = pool.pick(ctx.rng)
            base = op.split('.')[1]
            if len(k) == 2:
                lines.append('%s %s %s' % (op, arg(k[0], cur[i]), arg(k[1], other)))
                o = pyref.aff(other)
                exp.append(pyref.ed_add(ref[i], o if base.startswith('add') else pyref.ed_neg(o)))
            else:
                lines.append('%s %s' % (op, arg(k, cur[i])))
                exp.append(pyref.ed_neg(ref[i]) if base.startswith('neg') else pyref.ed_add(ref[i], ref[i]))
        out = harness.run_script(build, lines)
        for i, (l, o) in enumerate(zip(lines, out)):
            try:
                v = parseE(o)
                got = pyref.aff(v) if len(v) == 4 else tuple(v)
                okT = len(v) != 4 or pyref.wf(v)
            except Exception:
                got = None; okT = False
            if got != exp[i] or not okT:
                fails.append(('%s returns %s, the reference group law gives %s (build %s)' % (l.split()[0], o[:140], exp[i], build),
                              {'build': build, 'script': [l], 'output': [o], 'reference': list(exp[i])}, {'class': 'wrong_sum', 'build': build, 'op': l.split()[0]}))
            else:
                cur[i] = v if len(v) == 4 else [v[0], v[1], 1, v[0] * v[1] % Q]; ref[i] = exp[i]
    return fails

def search(ctx, scale, hints):
    fails = []
    for b in ('ark', 'min'):
        fails += programs(ctx, b, 20 * scale, 12)
        # the special pairs on every form
        pool = Pool(b, ctx.rng.fork('pool-' + b), n_rand=4)
        lines = []; exp = []
        for op, k in forms(b):
            if len(k) != 2 or k[0] not in 'EA': continue
            for p, q2 in special_pairs(pool, ctx.rng):
                lines.append('%s %s %s' % (op, arg(k[0], p), arg(k[1], q2)))
                o = pyref.aff(q2)
                exp.append(pyref.ed_add(pyref.aff(p), o if op.split('.')[1].startswith('add') else pyref.ed_neg(o)))
        out = harness.run_script(b, lines)
        for l, o, e in zip(lines, out, exp):
            try:
                v = parseE(o); got = pyref.aff(v) if len(v) == 4 else tuple(v)
            except Exception: got = None
            if got != e:
                fails.append(('%s returns %s, the reference group law gives %s (build %s)' % (l.split()[0], o[:140], e, b),
                              {'build': b, 'script': [l], 'output': [o], 'reference': list(e)}, {'class': 'wrong_sum', 'build': b, 'op': l.split()[0]}))
        # sums over iterators (every Sum impl, iterators with and without a size hint): the fold of the reference law
        lines = []; exp = []
        sums = [(op, k) for op, k in forms(b) if op.split('.')[1] == 'sum']
        lists = [[], [pool.pick(ctx.rng)]] + [[pool.pick(ctx.rng) for _ in range(n)] for n in (2, 3, 5, 8)] + pool.batches(ctx.rng)[:2]
        for op, k in sums:
            for l in lists:
                a = 'A' in op.split('.')[2].upper() and op.split('.')[2] in ('A', 'a')
                lines.append('%s %s' % (op, ';'.join((Af(pyref.aff(c)) if a else E(c)) for c in l) if l else '-'))
                acc = (0, 1)
                for c in l: acc = pyref.ed_add(acc, pyref.aff(c))
                exp.append(acc)
        out = harness.run_script(b, lines) if lines else []
        for l, o, e in zip(lines, out, exp):
            try:
                v = parseE(o); got = pyref.aff(v) if len(v) == 4 else tuple(v)
            except Exception: got = None
            if got != e:
                fails.append(('%s over %d summands returns %s, the reference group law gives %s (build %s)' % (l.split()[0], 0 if l.split()[1] == '-' else l.split()[1].count(';') + 1, o[:140], e, b),
                              {'build': b, 'script': [l], 'output': [o], 'reference': list(e)}, {'class': 'wrong_sum', 'build': b, 'op': l.split()[0]}))
    return fails

def always(ctx, scale):
    return surface.c04_min_select(ctx, Pool('min', ctx.rng.fork('surf'), n_rand=3), scale)

def run_check(ctx):
    run_property(ctx, 'Props.C04', VO, FILES, build_scripts, search, 'C04 (group law of every operator form) is no longer shown to hold', always=always)
    if ctx.tier == 'thorough':
        for b in ('ark', 'min'):
            for desc, replay, key in programs(ctx, b, 200, 40)[:5]:
                ctx.violation(desc, replay, key, found_input=True)
