"""C05 — scalar multiplication is the Z/r-module action; all elements have order | r."""
from ..core import *
from .. import harness, gen, pyref, corr
from ..curve import *
from .. import surface

VO = ['Props/C05.vo']
FILES = ['Props/C05.v', 'Proofs/Ladder.v', 'Proofs/EdwardsLaw.v', 'Proofs/Projective.v', 'Tie/Scalar.v']
SM = {'ark': ['el.smul.Ef', 'el.smul.Er', 'el.smul.ef', 'el.smul.er', 'el.smul.fE', 'el.smul.fe', 'el.smul.rE', 'el.smul.re', 'el.smul.assign_f', 'el.smul.assign_r'],
      'min': ['el.smul.Ef', 'el.smul.Er', 'el.smul.ef', 'el.smul.er', 'el.smul.fE', 'el.smul.fe', 'el.smul.rE', 'el.smul.re', 'el.smul.assign_f', 'el.smul.assign_r']}
AFSM = ['af.smul.ar', 'af.smul.ra', 'af.smul.Ar', 'af.smul.af', 'af.smul.Af', 'af.smul.fa', 'af.smul.rA', 'af.smul.fA', 'af.smul.assign_r', 'af.smul.assign_f']

def scalars(rng, scale):
    s = [0, 1, 2, 3, R - 1, R - 2, (R - 1) // 2, (R + 1) // 2, 2**64 - 1, 2**64, 2**128 - 1, 2**250, 2**250 - 1, (1 << 251) - 1 - ((1 << 251) - 1) % 1 if False else R - 2**64]
    s += [1 << k for k in (1, 31, 32, 63, 64, 65, 127, 128, 192, 249)]
    s += [gen.rand_field(rng, R) for _ in range(6 * scale)]
    return [x % R for x in s]
def limb_lists(rng, scale):
    ls = [[], [0], [1], [2], [0, 1], [2**64 - 1], [2**64 - 1] * 4, [2**64 - 1] * 5, [0, 0, 0, 0, 1], [1, 0, 0, 0, 0, 0], [0] * 7 + [3]]
    r_l = [(R >> (64 * i)) & (2**64 - 1) for i in range(4)]
    ls += [r_l, [(R + 1 >> (64 * i)) & (2**64 - 1) for i in range(4)], [((2 * R) >> (64 * i)) & (2**64 - 1) for i in range(4)]]
    for _ in range(4 * scale): ls.append([rng.bits(64) for _ in range(rng.below(9) + 1)])
    return ls
def L(l): return ','.join('%x' % v for v in l) if l else '-'

def build_scripts(ctx, scale):
    scripts = {}
    for b in ('ark', 'min'):
        pool = Pool(b, ctx.rng.fork('pool-' + b), n_rand=3 * scale); lines = []
        bases = [IDENT, T2REP, pool.base[0], t2_translate(pool.base[0]), pool.derived[0]] + [pool.pick(ctx.rng) for _ in range(2 * scale)]
        sc = scalars(ctx.rng, scale)
        # the special scalars (0, 1, 2, 3, r-1, r-2, ...) meet a NON-identity base in EVERY operator form (element and affine)
        for k in sc[:8]:
            for p in (bases[2], bases[4]):
                for op in SM[b]: lines.append('%s %s %x' % (op, E(p), k))
                if b == 'ark':
                    for op in AFSM: lines.append('%s %s %x' % (op, Af(pyref.aff(p)), k))
        for i, k in enumerate(sc):
            p = bases[i % len(bases)]
            for op in (SM[b] if i < 12 else [ctx.rng.choice(SM[b])]): lines.append('%s %s %x' % (op, E(p), k))
            if b == 'ark':
                for op in ([AFSM[i % len(AFSM)]]): lines.append('%s %s %x' % (op, Af(pyref.aff(p)), k))
        for i, l in enumerate(limb_lists(ctx.rng, scale)):
            p = bases[i % len(bases)]
            if b == 'ark':
                lines.append('el.mul_bigint %s %s' % (E(p), L(l))); lines.append('af.mul_bigint %s %s' % (Af(pyref.aff(p)), L(l)))
            else:
                lines.append('el.scalar_mul %s %s' % (E(p), L(l))); lines.append('el.scalar_mul_vartime %s %s' % (E(p), L(l)))
        if b == 'ark':
            for n in (0, 1, 2, 4):
                ks = [ctx.rng.choice(sc) for _ in range(n)]; ps = [pool.pick(ctx.rng) for _ in range(n)]
                lines.append('el.msm_vartime %s %s' % (';'.join('%x' % k for k in ks) if n else '-', ';'.join(E(p) for p in ps) if n else '-'))
            for n in (7, 8, 9, 15, 16, 17):          # term counts around batching boundaries
                ks = [ctx.rng.choice(sc) for _ in range(n)]; ps = [pool.pick(ctx.rng) for _ in range(n)]
                lines.append('el.msm_vartime %s %s' % (';'.join('%x' % k for k in ks), ';'.join(E(p) for p in ps)))
            for ps in pool.batches(ctx.rng):
                ks = [ctx.rng.choice(sc) for _ in ps]
                lines.append('el.msm_vartime %s %s' % (';'.join('%x' % k for k in ks), ';'.join(E(p) for p in ps)))
        scripts[b] = lines
    return scripts

def search(ctx, scale, hints):
    fails = []
    for b in ('ark', 'min'):
        pool = Pool(b, ctx.rng.fork('pool-' + b), n_rand=3)
        bases = [pool.base[0], t2_translate(pool.base[0]), pool.derived[0], IDENT, T2REP]
        lines = []; exp = []
        for i, k in enumerate(scalars(ctx.rng, scale)):
            p = bases[i % len(bases)]
            for op in SM[b]:
                lines.append('%s %s %x' % (op, E(p), k)); exp.append(pyref.smul(k, pyref.aff(p)))
            if b == 'ark':
                for op in AFSM:
                    lines.append('%s %s %x' % (op, Af(pyref.aff(p)), k)); exp.append(pyref.smul(k, pyref.aff(p)))
        for k in scalars(ctx.rng, 1)[:8]:         # special scalars on non-identity bases, every form
            for p in (bases[0], bases[2]):
                for op in SM[b] + (AFSM if b == 'ark' else []):
                    lines.append('%s %s %x' % (op, E(p) if op.startswith('el.') else Af(pyref.aff(p)), k)); exp.append(pyref.smul(k, pyref.aff(p)))
        for i, l in enumerate(limb_lists(ctx.rng, scale)):
            p = bases[i % len(bases)]; v = sum(x << (64 * j) for j, x in enumerate(l))
            for op in (['el.mul_bigint'] if b == 'ark' else ['el.scalar_mul', 'el.scalar_mul_vartime']):
                lines.append('%s %s %s' % (op, E(p), L(l))); exp.append(pyref.smul(v, pyref.aff(p)))
        # r * P = identity for every pool element
        r_l = [(R >> (64 * i)) & (2**64 - 1) for i in range(4)]
        for p in pool.all[:12]:
            lines.append('%s %s %s' % ('el.mul_bigint' if b == 'ark' else 'el.scalar_mul', E(p), L(r_l))); exp.append((0, 1))
        if b == 'ark':
            # multi-scalar multiplication = sum of the individual products, for every term count (batching boundaries) incl. repeated and identity terms
            sc = scalars(ctx.rng, 1)
            for n in list(range(0, 20)) + [24, 31, 32, 33]:
                ks = [ctx.rng.choice(sc) % R if i % 3 else (i + 1) for i in range(n)]; ps = [pool.pick(ctx.rng) if i % 4 else bases[i % len(bases)] for i in range(n)]
                acc = (0, 1)
                for k, p in zip(ks, ps): acc = pyref.ed_add(acc, pyref.smul(k, pyref.aff(p)))
                lines.append('el.msm_vartime %s %s' % (';'.join('%x' % k for k in ks) if n else '-', ';'.join(E(p) for p in ps) if n else '-')); exp.append(acc)
        out = harness.run_script(b, lines)
        for l, o, e in zip(lines, out, exp):
            try:
                c = parseE(o[3:] if o.startswith('OK ') else o)
                if len(c) == 2: got = tuple(c); ok = pyref.coset_eq(got, e) and pyref.on_curve(got)          # affine result
                else: got = pyref.aff(c); ok = pyref.coset_eq(got, e) and pyref.wf(c)
            except Exception: got = o; ok = False
            if not ok:
                fails.append(('%s returns %s, the k-fold sum is %s (build %s)' % (l[:110], str(got)[:100], e, b),
                              {'build': b, 'script': [l], 'output': [o], 'reference': list(e)}, {'class': 'smul', 'build': b, 'op': l.split()[0]}))
    return fails

def always(ctx, scale):
    return surface.c05_msm(ctx, Pool('ark', ctx.rng.fork('surf'), n_rand=3), scale)

def run_check(ctx):
    run_property(ctx, 'Props.C05', VO, FILES, build_scripts, search, 'C05 (scalar multiplication) is no longer shown to hold', always=always)