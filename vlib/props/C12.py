"""C12 — the arkworks and the minimal backend are observationally identical."""
from ..core import *
from .. import harness, gen, pyref, corr, coq, fieldcorr as fc
from ..curve import *
from .C10 import gen_lines

VO = ['Props/C12.vo']
FILES = ['Props/C12.v']

def shared_script(ctx, scale):
    """one op stream, run through BOTH harness binaries; outputs must agree (bytes exactly; elements as group elements)"""
    rng = ctx.rng.fork('c12'); lines = []
    pool = Pool('min', rng.fork('pool'), n_rand=5 * scale)
    strings = near_miss_strings(rng, pool.encodable, n_flip=6 * scale) + [rng.bits(253) & ~1 for _ in range(60 * scale)]
    for s in strings: lines.append('el.dec %s' % hexb(s))
    for n in (0, 1, 31, 33, 64): lines.append('el.dec.tf_slice %s' % (bytes([8] + [0] * 70)[:n].hex() if n else '-'))
    for c in pool.all:
        for r in [c] + pool.reps(c, rng)[:2]:
            lines.append('el.enc %s' % E(r)); lines.append('el.enc.to_field %s' % E(r)); lines.append('el.is_identity %s' % E(r))
    for r0 in [0, 1, Q - 1, 2] + [gen.rand_field(rng, Q) for _ in range(30 * scale)]: lines.append('el.elligator %x' % r0)
    for _ in range(20 * scale): lines.append('el.hash_to_curve %x %x' % (gen.rand_field(rng, Q), gen.rand_field(rng, Q)))
    for _ in range(30 * scale):
        a, b = pool.pick(rng), pool.pick(rng)
        op = rng.choice(['el.add.ee', 'el.add.EE', 'el.sub.ee', 'el.sub.eE', 'el.add_assign.e', 'el.sub_assign.E'])
        lines.append('%s %s %s' % (op, E(a), E(b))); lines.append('el.eq %s %s' % (E(a), E(b)))
    for _ in range(12 * scale):
        lines.append('el.smul.Ef %s %x' % (E(pool.pick(rng)), gen.rand_field(rng, R))); lines.append('el.neg %s' % E(pool.pick(rng))); lines.append('el.double %s' % E(pool.pick(rng)))
    # EVERY operation the two builds share, by its argument kinds: byte arguments get all slice lengths and the near-miss strings,
    # element arguments the representative families, scalars the limb-structured values
    sg = corr.sigs()
    common = sorted(set(op for (b, op) in sg if b == 0) & set(op for (b, op) in sg if b == 1))
    scal = [0, 1, 2, R - 1, R, 2**64, 2**128, 2**192 + 5, 2**64 - 1, (1 << 253) - 1] + [gen.rand_field(rng, R) for _ in range(2 * scale)]
    fvals = [0, 1, Q - 1, 2, 5] + [gen.rand_field(rng, Q) for _ in range(3 * scale)]
    for op in common:
        k = sg[(1, op)]
        if k == 'L':
            for n in list(range(0, 36)) + [48, 63, 64, 65, 80]: lines.append('%s %s' % (op, (bytes([8] + [0] * 31) + bytes(rng.bytes(48)))[:n].hex() if n else '-'))
            for sv in strings[:30]: lines.append('%s %s' % (op, hexb(sv)))
        elif k in ('E', 'EE', 'EF'):
            for _ in range(3 * scale + 2):
                args = [E(pool.pick(rng))]
                if k == 'EE': args.append(E(rng.choice([pool.pick(rng), parseE(args[0]), t2_translate(parseE(args[0])), neg_pt(parseE(args[0]))])))
                if k == 'EF': args.append('%x' % rng.choice(scal))
                lines.append('%s %s' % (op, ' '.join(args)))
        elif k in ('F', 'FF') and op != 'fq.sqrt_ratio_zeta':
            for _ in range(2 * scale + 2):
                r1 = rng.choice(fvals); args = ['%x' % r1]
                if k == 'FF': args.append('%x' % rng.choice([r1, (Q - r1) % Q, rng.choice(fvals)]))
                lines.append('%s %s' % (op, ' '.join(args)))
        elif k == '': lines.append(op)
    lines.append('fq.sqrt_ratio_zeta 1 4')
    for n, d in gen.sqrt_ratio_inputs(rng, 20 * scale)[:120]: lines.append('fq.sqrt_ratio_zeta %x %x' % (n, d))
    return lines

def canon_out(l, o):
    """observable content of an output line: bytes/verdicts as is; elements up to internal representative"""
    op = l.split()[0]
    if op == 'fq.sqrt_ratio_zeta':
        t = o.split()
        return (t[0], min(int(t[1], 16), (Q - int(t[1], 16)) % Q)) if len(t) == 2 else o   # the root is determined up to sign
    t = o.split()
    try:
        if t and t[0] == 'OK' and t[1].count(',') == 3:
            a = pyref.aff(parseE(t[1])); return ('OK', min(a, ((-a[0]) % Q, (-a[1]) % Q)))
        if o.count(',') == 3 and ' ' not in o:
            a = pyref.aff(parseE(o)); return min(a, ((-a[0]) % Q, (-a[1]) % Q))
    except Exception:
        pass
    return o

def run_check(ctx):
    st = coq.proof_stage(ctx, 'Props.C12', VO, FILES)
    finish_proof(ctx, st)
    scale = 1 if ctx.tier == 'quick' else 40
    if getattr(ctx, 'changed', None) and ctx.tier == 'quick': scale = 5
    lines = shared_script(ctx, scale)
    flines = [l for l in gen_lines(ctx.rng.fork('f10'), 'min', 3 * scale, 'C10') + gen_lines(ctx.rng.fork('f11'), 'min', 3 * scale, 'C11')]
    try:
        oa = harness.run_script('ark', lines + flines); om = harness.run_script('min', lines + flines)
    except RuntimeError as e:
        ctx.violation('harness failed: %s' % str(e)[:300], {'stage': 'build', 'log': str(e)[-3000:]}, {'stage': 'build'}, found_input=False); return
    n = 0; diffs = []
    for l, a, m in zip(lines + flines, oa, om):
        if 'UNSUPPORTED' in (a, m): continue
        n += 1
        if canon_out(l, a) != canon_out(l, m): diffs.append((l, a, m))
    ctx.cov['evaluations'] = n; ctx.cov['distinct_nontrivial'] = len({l for l in lines + flines if any(x not in ('0', '1', '-') for x in l.split()[1:])})
    ctx.cov['samples'] += [{'op': l[:120], 'ark': a[:100], 'min': m[:100]} for l, a, m in list(zip(lines + flines, oa, om))[:4]]
    ctx.cov['rule'] = 'one seeded op stream (decode near-misses, encode of representatives, Elligator, hash, group ops, scalar mul, sqrt, field ops of C10/C11) executed by both builds; outputs compared byte-for-byte (elements up to internal representative)'
    for l, a, m in diffs[:8]:
        ctx.violation('the two builds differ on %s: arkworks %s, minimal %s' % (l[:120], a[:100], m[:100]), {'stage': 'differential', 'script': [l], 'ark': a, 'min': m},
                      {'class': 'differential', 'op': l.split()[0]}, found_input=True)
    if st['regen_ok'] and not st['make_ok'] and not diffs:
        ctx.violation('C12 is no longer shown to hold — Coq proof obligation no longer checks: %s; the two builds agree on every op tried' % st['bad_file'],
                      {'stage': 'proof', 'theorem_file': st['bad_file'], 'coq_log': st['make_log'][-3000:]}, {'stage': 'proof', 'file': st['bad_file']}, found_input=False)
    ctx.assumptions += ['Coq kernel', 'translators', 'harness crates for both feature configurations built from the same working tree']
