"""C10 — field arithmetic is exact arithmetic mod p in all three fields, both backends."""
from ..core import *
from .. import harness, gen, fieldcorr as fc, coq
from ..curve import finish_proof

ARITH = ('add', 'sub', 'mul', 'div', 'add_assign', 'sub_assign', 'mul_assign', 'div_assign')
UN = {'neg', 'square', 'inverse', 'inh.neg', 'neg.inherent', 'legendre', 'ark.double', 'ark.double_in_place', 'ark.neg_in_place', 'ark.square',
      'ark.square_in_place', 'ark.inverse', 'ark.inverse_in_place', 'ark.is_zero', 'ark.is_one'}
C11_UN = {'hash', 'to_bytes', 'to_bytes_le', 'ark.into_bigint', 'ark.into_bigint_conv', 'ark.into_biguint', 'ark.ser'}

def operand(rng, m, boundary):
    return rng.choice(boundary) if rng.below(3) == 0 else gen.rand_field(rng, m)

def structured_pairs(rng, f, n):
    """operand pairs for the binary predicates (eq, ct_eq, cmp): equal operands, and distinct operands whose LIMBS — in the
    canonical and in the Montgomery representation, 64- and 32-bit — differ by patterns that cancel under xor / addition,
    or only in one limb / one bit.  (Random operands differ in every limb, so a limb-combining comparison is never exercised.)"""
    m = fc.MOD[f]; nb = 8 * fc.N8[f]; Rinv = pow(1 << nb, -1, m); out = []
    def limbs_ok(v): return 0 <= v < m
    for k in range(n):
        L = gen.rand_field(rng, m) >> rng.below(3)
        w = rng.choice([64, 32]); nl = nb // w
        i, j = rng.below(nl - 1), 0
        j = i + 1 + rng.below(nl - 1 - i) if i < nl - 1 else i
        d = rng.choice([1, 1 << (w - 1), (1 << w) - 1, rng.bits(w) | 1])
        kind = k % 6
        if kind == 0: L2 = L
        elif kind == 1: L2 = L ^ (d << (w * i)) ^ (d << (w * j))
        elif kind == 2: L2 = L + (d << (w * i)) - (d << (w * j))
        elif kind == 3: L2 = L ^ (1 << rng.below(m.bit_length() - 1))
        elif kind == 4: L2 = L ^ (d << (w * i))
        else:
            sh = w * i; lo = (L >> sh) & ((1 << w) - 1); hi = (L >> (w * j)) & ((1 << w) - 1)     # swap two limbs
            L2 = L & ~(((1 << w) - 1) << sh) & ~(((1 << w) - 1) << (w * j)) | (hi << sh) | (lo << (w * j))
        if not limbs_ok(L2): L2 = L
        out.append((L, L2))                                   # pattern in the canonical representation
        out.append((L * Rinv % m, L2 * Rinv % m))             # the same pattern in the Montgomery representation
    return out

def limb_patterns(rng, f, n):
    """operands whose 32-bit limbs — in the canonical and in the Montgomery representation — are drawn from
    {0, 1, 2^32-1, 2^32-2, 2^31, random}: carries and borrows meeting an all-ones / all-zero limb are reached with probability
    2^-32 by random operands (seed C10n: a borrow chain that loses the borrow entering a limb equal to 2^32-1)."""
    m = fc.MOD[f]; nb = 8 * fc.N8[f]; Rinv = pow(1 << nb, -1, m); nl = nb // 32; out = []
    for k in range(n):
        while True:
            L = 0
            for i in range(nl):
                L |= rng.choice([0, 1, 0xffffffff, 0xfffffffe, 0x80000000, 0xffffffff, rng.bits(32)]) << (32 * i)
            if L >= m: L &= (1 << (m.bit_length() - 1 - rng.below(3))) - 1
            if L < m: break
        out.append(L); out.append(L * Rinv % m)
    return out

def gen_lines(rng, build, reps, which='C10'):
    ops = harness.list_ops(build); lines = []
    for f in ('fq', 'fr', 'fp'):
        m = fc.MOD[f]; n8 = fc.N8[f]; bd = gen.field_boundary(m)
        F = lambda: '%x' % operand(rng, m, bd)
        for op in ops:
            if not op.startswith(f + '.'): continue
            o = op[len(f) + 1:]
            if o.startswith('const.') or o.startswith('ark.const.'): continue
            if (which == 'C10' and o in ('eq', 'ct_eq', 'sub', 'sub.inherent')) or (which == 'C11' and o in ('cmp', 'partial_cmp')):
                for a, b2 in structured_pairs(rng, f, 3 * reps):
                    lines.append('%s %x %x' % (op, a, b2))
            if which == 'C10' and (o.split('.')[0] in ARITH or o in ('inh.add', 'inh.sub', 'inh.mul', 'add.inherent', 'sub.inherent', 'mul.inherent', 'eq', 'ct_eq')):
                for x in limb_patterns(rng, f, 2 * reps):
                    lines.append('%s %s %x' % (op, rng.choice(['0', '1', F(), '%x' % x]), x)); lines.append('%s %x %s' % (op, x, F()))
            elif which == 'C10' and o in UN:
                for x in limb_patterns(rng, f, 2 * reps): lines.append('%s %x' % (op, x))
            for rep in range(reps if not (which == 'C11' and o == 'ark.from_str') else max(reps, 44)):
                if which == 'C10':
                    if o.split('.')[0] in ARITH or o in ('inh.add', 'inh.sub', 'inh.mul', 'add.inherent', 'sub.inherent', 'mul.inherent', 'eq', 'ct_eq'):
                        lines.append('%s %s %s' % (op, F(), F() if rep else '0'))
                    elif o in UN: lines.append('%s %s' % (op, F() if rep else '0'))
                    elif o in ('sum.v', 'sum.r', 'product.v', 'product.r', 'sum.lazy', 'product.lazy'):
                        n = rep % 6; lines.append('%s %s' % (op, ';'.join(F() for _ in range(n)) if n else '-'))
                    elif o == 'select': lines.append('%s %s %s %d' % (op, F(), F(), rep % 2))
                    elif o == 'power':
                        k = rep % 5; lines.append('%s %s %s' % (op, F(), ','.join('%x' % rng.choice([0, 1, 2, 2**64 - 1, rng.bits(64)]) for _ in range(k)) if k else '-'))
                    elif o == 'pow': lines.append('%s %s %s' % (op, F(), ','.join('%x' % rng.bits(64) for _ in range(rep % 7 + 1))))
                    elif o in ('default', 'ark.zero', 'ark.one'):
                        if rep == 0: lines.append(op)
                else:   # C11
                    if o in C11_UN or o.startswith('ark.ser_flags'): lines.append('%s %s' % (op, F() if rep else '0'))
                    elif o in ('cmp', 'partial_cmp'): lines.append('%s %s %s' % (op, F(), F() if rep % 3 else F()))
                    elif o in ('from_le_bytes_mod_order', 'rand', 'ark.from_be_bytes_mod_order', 'ark.from_le_bytes_mod_order', 'ark.from_random_bytes'):
                        n = (rep * 7) % 201 if rep < 40 else rng.below(201); b = rng.bytes(n)
                        if rep % 5 == 4: b = bytes([255] * n)
                        lines.append('%s %s' % (op, b.hex() if n else '-'))
                    elif o == 'from_bytes_checked':
                        v = [gen.rand_field(rng, m), m + rng.below(1000), m - 1, m, m + 1, 2**(8 * n8) - 1, 0, 1 << (m.bit_length() - 1)][rep % 8]
                        lines.append('%s %s' % (op, (v % 2**(8 * n8)).to_bytes(n8, 'little').hex()))
                    elif o in ('ark.deser', 'ark.deser.drip') or o.startswith('ark.deser_flags'):
                        v = [gen.rand_field(rng, m), m - 1, m, m + 1][rep % 4] % 2**(8 * n8); b = bytearray(v.to_bytes(n8, 'little'))
                        if rep % 7 == 1: b[-1] |= 0x80
                        if rep % 7 == 2: b[-1] |= 0xc0
                        if rep % 7 == 3: b[-1] |= 0x40
                        if rep % 7 == 4: b = b[:rng.below(n8)]
                        if rep % 7 == 5: b = b + bytes(rng.bytes(3))
                        lines.append('%s %s' % (op, bytes(b).hex() if b else '-'))
                    elif o in ('ark.from_bigint', 'ark.from_bigint_conv'):
                        v = [gen.rand_field(rng, m), m + rng.below(5), m - 1, m, 2**(8 * n8) - 1][rep % 5]
                        lines.append('%s %s' % (op, ','.join('%x' % ((v >> (64 * i)) & (2**64 - 1)) for i in range(n8 // 8))))
                    elif o.startswith('from_u') or o == 'from_bool' or o == 'ark.from_biguint':
                        bits = {'from_u128': 128, 'from_u64': 64, 'from_u32': 32, 'from_u16': 16, 'from_u8': 8, 'from_bool': 1}.get(o, 400)
                        lines.append('%s %x' % (op, rng.choice([0, 1, 2**bits - 1, rng.bits(bits)])))
                    elif o == 'ark.from_str':
                        # decimal strings: lengths around every multiple of 19 (u64 digit batches) and of 9/18, trailing / leading / interior zeros,
                        # powers of ten, d*10^k, all nines, values around the modulus, the empty string, then random
                        dec = ['0', '00', '1', '10', '0000000000000000000000000000001', str(m - 1), str(m), str(m + 1), str(2 * m + 7), '9' * 19, '9' * 20, '9' * 38, '9' * 39, '']
                        dec += ['1' + '0' * k for k in (9, 17, 18, 19, 20, 21, 37, 38, 39, 40, 56, 57, 58, 75, 76, 77, 95)]
                        dec += [str(d_) + '0' * k for d_, k in ((25, 21), (7, 19), (123456789, 30), (5, 76), (99, 38))]
                        dec += ['1' + '0' * 18 + '5' + '0' * 19, '12345678901234567890' * 3 + '0' * 7]
                        lines.append('%s "%s"' % (op, dec[rep] if rep < len(dec) else str(rng.bits(rng.below(500) + 1))))
    return lines

VO = ['Props/C10.vo', 'Tie/FieldPower.vo']
FILES = ['Props/C10.v', 'Proofs/FieldLemmas.v', 'Base/ZpField.v', 'Tie/FieldPower.v', 'Proofs/FiatSpecs.v', 'Proofs/FiatPrims.v', 'Proofs/FiatLemmas.v']

def predicate_search(ctx, build, lines, hout, which):
    """property predicate on the implementation: compare every arithmetic result with Python integer arithmetic"""
    fails = []
    for l, o in zip(lines, hout):
        t = l.split(); f, _, op = t[0].partition('.')
        if f not in fc.MOD: continue
        m = fc.MOD[f]
        try:
            a = [int(x, 16) for x in t[1:]] if all(c in '0123456789abcdef' for x in t[1:] for c in x) else None
        except Exception: a = None
        exp = None
        base = op.split('.')[0]
        if a is not None and len(a) == 2 and base in ('add', 'add_assign'): exp = '%x' % ((a[0] + a[1]) % m)
        elif a is not None and len(a) == 2 and base in ('sub', 'sub_assign'): exp = '%x' % ((a[0] - a[1]) % m)
        elif a is not None and len(a) == 2 and base in ('mul', 'mul_assign'): exp = '%x' % ((a[0] * a[1]) % m)
        elif a is not None and len(a) == 2 and base in ('div', 'div_assign'): exp = 'PANIC' if a[1] % m == 0 else '%x' % ((a[0] * pow(a[1], -1, m)) % m)
        elif a is not None and len(a) == 1 and op in ('neg',): exp = '%x' % ((-a[0]) % m)
        elif a is not None and len(a) == 1 and op in ('square',): exp = '%x' % ((a[0] * a[0]) % m)
        elif a is not None and len(a) == 1 and op in ('inverse',): exp = 'NONE' if a[0] % m == 0 else 'SOME %x' % pow(a[0], -1, m)
        elif a is not None and len(a) == 2 and op in ('eq', 'ct_eq'): exp = '1' if (a[0] - a[1]) % m == 0 else '0'
        elif op == 'select' and a is not None: exp = '%x' % (a[1] if a[2] == 1 else a[0])
        elif op in ('product.v', 'product.r', 'sum.v', 'sum.r', 'product.lazy', 'sum.lazy'):
            xs = [int(x, 16) for x in t[1].split(';')] if t[1] != '-' else []
            acc = 1 if op.startswith('product') else 0
            for x in xs: acc = acc * x % m if op.startswith('product') else (acc + x) % m
            exp = '%x' % acc
        elif op == 'power':
            ls = [int(x, 16) for x in t[2].split(',')] if t[2] != '-' else []
            exp = '%x' % pow(int(t[1], 16), sum(v << (64 * i) for i, v in enumerate(ls)), m)
        if exp is not None and o != exp and o != 'UNSUPPORTED':
            fails.append(('%s returns %s, exact arithmetic mod p gives %s (build %s)' % (l[:120], o[:80], exp[:80], build),
                          {'build': build, 'script': [l], 'output': [o], 'expected': exp}, {'class': 'arith', 'build': build, 'op': t[0]}))
    return fails

def run_generic(ctx, which, module, vo, files, what):
    st = coq.proof_stage(ctx, module, vo, files)
    finish_proof(ctx, st)
    reps = 6 if ctx.tier == 'quick' else 400
    if getattr(ctx, 'changed', None) and ctx.tier == 'quick': reps = 30      # sources differ from the validated ones: explore more
    allm = []; hist = {}
    outs = {}
    for b in ('ark', 'min'):
        lines = gen_lines(ctx.rng.fork(which + b), b, reps, which)
        try:
            n, mism, hout, skipped = fc.compare(b, lines)
        except RuntimeError as e:
            ctx.violation('harness or model failed to build/run (%s): %s' % (b, str(e)[:300]), {'stage': 'build', 'log': str(e)[-3000:]}, {'stage': 'build'}, found_input=False); continue
        outs[b] = (lines, hout)
        ctx.cov['evaluations'] += n
        ctx.cov['distinct_nontrivial'] += len({l for l in lines if any(a not in ('0', '1', '-') for a in l.split()[1:])})
        for l, o in zip(lines, hout):
            k = b + ':' + l.split()[0]; hist[k] = hist.get(k, 0) + 1
        ctx.cov['samples'] += [{'build': b, 'op': l[:120], 'implementation': o[:120]} for l, o in list(zip(lines, hout))[:3]]
        allm += mism
    ctx.extra['op_histogram'] = hist
    ctx.cov['rule'] = 'every operator/method form of every field on both backends, operands from the boundary list of the quantifier (0,1,2^32-1,2^64-1,p-1,p-2,(p±1)/2,2^k,2^k±1,limb patterns) and seeded random; non-trivial = some operand not in {0,1}'
    if which == 'C11':       # printers, uncompressed mode, size, trait plumbing, inherent constants (no model op: vlib/surface.py), every run
        from .. import surface
        try:
            n_s, f_s = surface.c11_field_plumbing(ctx, 1 if ctx.tier == 'quick' else 20)
            ctx.cov['evaluations'] += n_s; ctx.cov['distinct_nontrivial'] += n_s
            for desc, replay, key in f_s[:8]: ctx.violation(desc, {'stage': 'search', **replay}, key, found_input=True)
        except RuntimeError as e:
            ctx.violation('harness failed: %s' % str(e)[:300], {'stage': 'build', 'log': str(e)[-3000:]}, {'stage': 'build'}, found_input=False)
    broken = []
    if not st['regen_ok']: broken.append(('translator failed', {'stage': 'translate', 'log': st.get('regen_log', '')[-2000:]}))
    elif not st['make_ok']: broken.append(('Coq proof obligation no longer checks: %s' % st['bad_file'], {'stage': 'proof', 'theorem_file': st['bad_file'], 'coq_log': st['make_log'][-3000:]}))
    for m in allm[:40]: broken.append(('model and implementation disagree on: %s' % m['line'][:160], {'stage': 'correspondence', **m}))
    if broken or getattr(ctx, 'changed', None):
        fails = []
        for b, (lines, hout) in outs.items(): fails += predicate_search(ctx, b, lines, hout, which)
        if which == 'C11':
            from .C11 import predicate_search11
            for b, (lines, hout) in outs.items(): fails += predicate_search11(ctx, b, lines, hout)
        if fails:
            seen = set()
            for desc, replay, key in fails:
                k = json.dumps(key, sort_keys=True)
                if k in seen: continue
                seen.add(k); ctx.violation(desc, {'stage': 'search', 'broken_ties': [x[0] for x in broken][:8], **replay}, key, found_input=True)
                if len(seen) >= 10: break
        else:
            for desc, replay in broken[:5]:
                ctx.violation('%s — %s; no input violating the property was found on the implementation' % (what, desc), replay,
                              {'stage': replay.get('stage'), 'line': replay.get('line', '')[:60]}, found_input=False)
    ctx.assumptions += ['Coq kernel + vm_compute', 'hand model Model/FieldTable.v of the operator tables and arkworks trait impls (tied by correspondence on both backends)',
                        'the arkworks Montgomery backend and the fiat-crypto generated code are exercised, not proved (see DESIGN.md)', 'extraction with ExtrOcamlZBigInt']

def run_check(ctx):
    run_generic(ctx, 'C10', 'Props.C10', VO, FILES, 'C10 (exact field arithmetic) is no longer shown to hold')
