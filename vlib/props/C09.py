"""C09 — square-root-of-ratio meets its four-case contract on every input, and never panics."""
from ..core import *
from .. import harness, gen, pyref
from ..curve import *

VO = ['Props/C09.vo']
FILES = ['Props/C09.v', 'Proofs/SqrtTS.v', 'Proofs/SqrtSarkar.v', 'Proofs/Instance.v', 'Tie/Loops.v', 'Tie/SqrtArk.v']

def build_scripts(ctx, scale):
    pairs = gen.sqrt_ratio_inputs(ctx.rng, 150 * scale)
    return {b: ['fq.sqrt_ratio_zeta %x %x' % p for p in pairs] for b in ('ark', 'min')}

def search(ctx, scale, hints):
    fails = []
    pairs = gen.sqrt_ratio_inputs(ctx.rng, 300 * scale)
    for h in hints:
        t = h['line'].split()
        if t[0] == 'fq.sqrt_ratio_zeta': pairs.append((int(t[1], 16), int(t[2], 16)))
    for b in ('ark', 'min'):
        lines = ['fq.sqrt_ratio_zeta %x %x' % p for p in pairs]
        out = harness.run_script(b, lines)
        for (n, d), l, o in zip(pairs, lines, out):
            t = o.split()
            if len(t) != 2:
                fails.append(('sqrt_ratio_zeta(%x, %x) gives %s (build %s)' % (n, d, o, b), {'build': b, 'script': [l], 'output': [o]}, {'class': 'panic', 'build': b})); continue
            if not pyref.contract_ok(n, d, int(t[0]), int(t[1], 16)):
                fails.append(('sqrt_ratio_zeta(%x, %x) = (%s, %s) violates the four-case contract (build %s)' % (n, d, t[0], t[1], b),
                              {'build': b, 'script': [l], 'output': [o]}, {'class': 'contract', 'build': b}))
    return fails

def run_check(ctx):
    run_property(ctx, 'Props.C09', VO, FILES, build_scripts, search, 'C09 (sqrt_ratio contract) is no longer shown to hold')
