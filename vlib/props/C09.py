"""C09 — square-root-of-ratio meets its four-case contract on every input, and never panics."""
from ..core import *
from .. import harness, gen, pyref
from ..curve import *

VO = ['Props/C09.vo']
FILES = ['Props/C09.v', 'Proofs/SqrtTS.v', 'Proofs/SqrtSarkar.v', 'Proofs/Instance.v', 'Tie/Loops.v', 'Tie/SqrtArk.v']

def build_scripts(ctx, scale):
    pairs = gen.sqrt_ratio_inputs(ctx.rng, 150 * scale)
    return {b: ['fq.sqrt_ratio_zeta %x %x' % p for p in pairs] for b in ('ark', 'min')}

def search(ctx, scale, hints):
    fails = []
    pairs = gen.sqrt_ratio_inputs(ctx.rng, 300 * scale)
    for h in hints:
        t = h['line'].split()
        if t[0] == 'fq.sqrt_ratio_zeta': pairs.append((int(t[1], 16), int(t[2], 16)))
    for b in ('ark', 'min'):
        lines = ['fq.sqrt_ratio_zeta %x %x' % p for p in pairs]
        out = harness.run_script(b, lines)
        for (n, d), l, o in zip(pairs, lines, out):
            t = o.split()
            if len(t) != 2:
                fails.append(('sqrt_ratio_zeta(%x, %x) gives %s (build %s)' % (n, d, o, b), {'build': b, 'script': [l], 'output': [o]}, {'class': 'panic', 'build': b})); continue
            if not pyref.contract_ok(n, d, int(t[0]), int(t[1], 16)):
                fails.append(('sqrt_ratio_zeta(%x, %x) = (%s, %s) violates the four-case contract (build %s)' % (n, d, t[0], t[1], b),
                              {'build': b, 'script': [l], 'output': [o]}, {'class': 'contract', 'build': b}))
    return fails

def field_sqrt_legendre(ctx):
    """generic Field::sqrt and legendre of the three fields (arkworks build) against Euler's criterion: legendre through the
    field model (Model/FieldTable.v), sqrt through the predicate y^2 = x / None iff non-residue"""
    from .. import fieldcorr as fc
    rng = ctx.rng.fork('fsqrt'); lines = []
    for f in ('fq', 'fr', 'fp'):
        m = fc.MOD[f]
        xs = [0, 1, 2, 3, 4, 5, m - 1, m - 2, (m - 1) // 2] + [gen.rand_field(rng, m) for _ in range(12)]
        xs += [x * x % m for x in xs[3:9]]
        for x in xs: lines.append('%s.legendre %x' % (f, x)); lines.append('%s.sqrt %x' % (f, x))
    n, mism, hout, skipped = fc.compare('ark', lines)
    ctx.cov['evaluations'] += len(lines); ctx.cov['distinct_nontrivial'] += len(set(lines))
    for mm in mism[:5]:
        ctx.violation('legendre symbol differs from Euler\'s criterion: %s -> %s' % (mm['line'], mm['implementation']), {'stage': 'search', 'script': [mm['line']], 'output': [mm['implementation']], 'model': mm['model']},
                      {'class': 'legendre', 'op': mm['line'].split()[0]}, found_input=True)
    for l, o in zip(lines, hout):
        f, _, op = l.split()[0].partition('.')
        if op != 'sqrt': continue
        m = fc.MOD[f]; x = int(l.split()[1], 16); qr = x == 0 or pow(x, (m - 1) // 2, m) == 1
        ok = (o == 'NONE' and not qr) or (o.startswith('SOME ') and qr and pow(int(o.split()[1], 16), 2, m) == x)
        if not ok:
            ctx.violation('%s returns %s (x is %sa quadratic residue)' % (l, o, '' if qr else 'not '), {'stage': 'search', 'script': [l], 'output': [o]}, {'class': 'field_sqrt', 'op': l.split()[0]}, found_input=True)

def run_check(ctx):
    run_property(ctx, 'Props.C09', VO, FILES, build_scripts, search, 'C09 (sqrt_ratio contract) is no longer shown to hold')
    try: field_sqrt_legendre(ctx)
    except RuntimeError as e:
        ctx.violation('harness or model failed: %s' % str(e)[:300], {'stage': 'build', 'log': str(e)[-2000:]}, {'stage': 'build'}, found_input=False)
