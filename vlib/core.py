"""Shared machinery of the /verif driver: paths, subprocesses, locking, evidence, violations."""
import os, sys, json, time, subprocess, fcntl, hashlib, re, shutil

VERIF = os.path.dirname(os.path.dirname(os.path.abspath(__file__)))
REPO = os.environ.get('VERIF_REPO', '/repo')
COQ = os.path.join(VERIF, 'coq')
CACHE = os.path.join(VERIF, '.cache')
EVID = os.path.join(VERIF, 'evidence')
REPLAYS = os.path.join(VERIF, 'replays')
NCPU = os.cpu_count() or 4
for d in (CACHE, EVID, REPLAYS):
    os.makedirs(d, exist_ok=True)

def log(*a):
    print(*a, file=sys.stderr, flush=True)

def run(cmd, cwd=None, timeout=None, env=None, input=None, drop_stderr=False):
    e = dict(os.environ)
    e.update({'CARGO_NET_OFFLINE': 'true', 'GOPROXY': 'off', 'PIP_NO_INDEX': '1'})
    if env: e.update(env)
    try:
        p = subprocess.run(cmd, cwd=cwd, timeout=timeout, env=e, input=input, shell=isinstance(cmd, str),
                           stdout=subprocess.PIPE, stderr=(subprocess.DEVNULL if drop_stderr else subprocess.STDOUT), text=True, errors='replace')
        return p.returncode, p.stdout
    except subprocess.TimeoutExpired as ex:
        out = ex.stdout if isinstance(ex.stdout, str) else (ex.stdout or b'').decode('utf8', 'replace')
        return 124, (out or '') + '\n[timeout after %ss]' % timeout

class Lock:
    """Serialise builds that share /verif/coq and the cargo target dirs."""
    def __init__(self, name='build'):
        self.path = os.path.join(CACHE, name + '.lock')
    def __enter__(self):
        self.f = open(self.path, 'w'); fcntl.flock(self.f, fcntl.LOCK_EX); return self
    def __exit__(self, *a):
        fcntl.flock(self.f, fcntl.LOCK_UN); self.f.close()

# ------------------------------------------------------------------ PRNG (SplitMix64) — every random choice derives from it
class Rng:
    def __init__(self, seed):
        self.s = seed & 0xFFFFFFFFFFFFFFFF
    def next(self):
        self.s = (self.s + 0x9E3779B97F4A7C15) & 0xFFFFFFFFFFFFFFFF
        z = self.s
        z = ((z ^ (z >> 30)) * 0xBF58476D1CE4E5B9) & 0xFFFFFFFFFFFFFFFF
        z = ((z ^ (z >> 27)) * 0x94D049BB133111EB) & 0xFFFFFFFFFFFFFFFF
        return z ^ (z >> 31)
    def below(self, n):
        if n <= 0: return 0
        bits = n.bit_length() + 64
        v = 0
        for _ in range((bits + 63) // 64): v = (v << 64) | self.next()
        return v % n
    def bits(self, k):
        v = 0
        for _ in range((k + 63) // 64): v = (v << 64) | self.next()
        return v & ((1 << k) - 1)
    def choice(self, l): return l[self.below(len(l))]
    def bytes(self, n): return self.bits(8 * n).to_bytes(n, 'little') if n else b''
    def fork(self, tag):
        h = hashlib.sha256(('%d/%s' % (self.s, tag)).encode()).digest()
        return Rng(int.from_bytes(h[:8], 'little'))

# ------------------------------------------------------------------ known findings
def load_known():
    p = os.path.join(VERIF, 'known_findings.json')
    if not os.path.exists(p): return []
    return json.load(open(p)).get('findings', [])

class Ctx:
    def __init__(self, prop, tier, seed, level='proof'):
        self.prop, self.tier, self.seed, self.level = prop, tier, seed, level
        self.t0 = time.time()
        self.rng = Rng(seed)
        self.violations = []      # unlisted
        self.known_hits = []
        self.cov = {'evaluations': 0, 'distinct_nontrivial': 0, 'samples': [], 'obligations': 0, 'discharged': 0,
                    'checker_cmd': '', 'trusted_base': [], 'rule': '', 'explanation': ''}
        self.assumptions = []
        self.extra = {}
        self.nreplay = 0
        self.known = [k for k in load_known() if k.get('property') == prop]
        try:
            from . import fingerprint
            self.changed = fingerprint.deepen(prop)      # sources that differ from the ones the models were validated against
        except Exception:
            self.changed = []
        if self.changed: self.extra['source_files_changed'] = self.changed; self.extra['deepened'] = True

    def replay_path(self):
        self.nreplay += 1
        return os.path.join(REPLAYS, '%s-%s-%d-%d.json' % (self.prop, self.tier, self.seed, self.nreplay))

    def violation(self, what, replay, key=None, found_input=True):
        """Report a property violation.  `key` is a dict of structured fields used to match known findings."""
        key = key or {}
        for k in self.known:
            if k.get('status') == 'known' and all(str(key.get(f)) == str(v) for f, v in k.get('match', {}).items()):
                tag = json.dumps(k.get('match', {}), sort_keys=True)
                if tag not in self.known_hits:
                    self.known_hits.append(tag)
                    print('KNOWN-FINDING: property=%s %s' % (self.prop, k.get('what', what)), flush=True)
                return False
        path = self.replay_path()
        replay = dict(replay); replay.update({'property': self.prop, 'what': what, 'key': key, 'found_failing_input': found_input,
                                              'seed': self.seed, 'tier': self.tier})
        json.dump(replay, open(path, 'w'), indent=1, default=str)
        self.violations.append(path)
        line = 'VIOLATION property=%s replay=%s' % (self.prop, path)
        if not found_input: line += ' no-failing-input-found'
        print(line, flush=True)
        log('  ' + what)
        return True

    def finish(self):
        cov = dict(self.cov)
        cov.update(self.extra)
        if not cov['samples']: cov['samples'] = ['(none)']
        if cov['discharged'] < 1 or cov['obligations'] < 1:
            # proof stage did not complete: fall back to the generic keys (schema: generic_fallback)
            cov['proof_stage_incomplete'] = {'obligations': cov.pop('obligations'), 'discharged': cov.pop('discharged')}
        if cov['evaluations'] < 1: cov['evaluations'] = max(1, cov.get('obligations', 1))
        if cov['distinct_nontrivial'] < 2: cov['distinct_nontrivial'] = max(2, cov.get('discharged', 2))
        ev = {'property_id': self.prop, 'tier': self.tier, 'seed': self.seed, 'level': self.level, 'coverage': cov,
              'assumptions': self.assumptions, 'wall_s': round(time.time() - self.t0, 2), 'violations': len(self.violations),
              'known_findings_hit': self.known_hits}
        json.dump(ev, open(os.path.join(EVID, self.prop + '.json'), 'w'), indent=1, default=str)
        return 1 if self.violations else 0
