"""Correspondence for the field layer (C10/C11): protocol lines <-> model lines of Model/FieldTable.v"""
import re
from .core import *
from . import model, harness
from .gen import Q, R, P

FID = {'fq': 0, 'fr': 1, 'fp': 2}
MOD = {'fq': Q, 'fr': R, 'fp': P}
N8 = {'fq': 32, 'fr': 32, 'fp': 48}
_names = set()
def names():
    if not _names:
        ok, o = model.build()
        if not ok: raise RuntimeError('model build failed:\n' + o[-3000:])
        rc, out = run([model.MODEL_BIN, '--list'], timeout=60)
        for l in out.split('\n'):
            if l.startswith('f '): _names.add(l[2:].strip())
    return _names

FLAGS = {'EmptyFlags': (0, 0, 0), 'TEFlags.XIsPositive': (1, 0, 0), 'TEFlags.XIsNegative': (1, 128, 1),
         'SWFlags.YIsPositive': (2, 0, 0), 'SWFlags.PointAtInfinity': (2, 64, 1), 'SWFlags.YIsNegative': (2, 128, 2)}
FLAGTY = {'EmptyFlags': 0, 'TEFlags': 1, 'SWFlags': 2}
FLAGNAME = {'EmptyFlags': 0, 'XIsPositive': 0, 'XIsNegative': 1, 'YIsPositive': 0, 'PointAtInfinity': 1, 'YIsNegative': 2}
BYTES_IN = {'from_le_bytes_mod_order', 'from_bytes_checked', 'rand', 'ark.from_be_bytes_mod_order', 'ark.from_le_bytes_mod_order', 'ark.deser', 'ark.deser.drip', 'ark.from_random_bytes'}
BYTES_OUT = {'hash', 'to_bytes', 'to_bytes_le', 'ark.ser'}
LIMBS_IN = {'ark.from_bigint', 'ark.from_bigint_conv'}
LIST_IN = {'sum.v', 'sum.r', 'product.v', 'product.r', 'sum.lazy', 'product.lazy'}
ERR = {'InvalidEncoding': 1, 'Ser:InvalidData': 1, 'Ser:IoError': 3, 'Ser:UnexpectedFlags': 4, 'Ser:NotEnoughSpace': 5}

def blist(h): b = bytes.fromhex(h) if h != '-' else b''; return [len(b)] + list(b)
def llist(h, sep=','): l = [int(x, 16) for x in h.split(sep)] if h != '-' else []; return [len(l)] + l

def to_model_line(line):
    t = line.split()
    f, _, op = t[0].partition('.')
    if f not in FID: return None
    a = t[1:]
    m = re.match(r'^ark\.ser_flags\.(.+)$', op)
    if m:
        bits, mask, _ = FLAGS[m.group(1)]
        return 'f%d ark.ser_flags %d %d %d' % (FID[f], bits, mask, int(a[0], 16))
    m = re.match(r'^ark\.deser_flags\.(.+)$', op)
    if m:
        return 'f%d ark.deser_flags %d %s' % (FID[f], FLAGTY[m.group(1)], ' '.join(map(str, blist(a[0]))))
    if op not in names(): return None
    ints = []
    if op in BYTES_IN: ints = blist(a[0])
    elif op in LIMBS_IN: ints = llist(a[0])
    elif op in LIST_IN: ints = llist(a[0], ';')
    elif op in ('power', 'pow'): ints = [int(a[0], 16)] + llist(a[1])
    elif op == 'ark.from_str':
        s = line.split(None, 1)[1].strip().strip('"')
        if not s.isdigit() and s != '': return None
        ints = [len(s)] + [int(c) for c in s]
    else: ints = [int(x, 16) for x in a]
    return 'f%d %s %s' % (FID[f], op, ' '.join(str(i) for i in ints))

def canon(line, out):
    op = line.split()[0].partition('.')[2]
    out = out.strip()
    if out == 'PANIC': return [-7]
    if out in ('UNSUPPORTED', 'BADINPUT', 'CRASH', 'TIMEOUT'): return [out]
    t = out.split()
    if t[0] == 'ERR': return [0, ERR.get(t[1], 99)] if len(t) > 1 else [0, 99]
    if t[0] == 'NONE': return [0]
    res = []
    if t[0] in ('OK', 'SOME'): res.append(1); t = t[1:]
    if op in ('cmp', 'partial_cmp', 'legendre', 'ark.legendre'): return [int(t[0])]
    if op.startswith('ark.deser_flags'): return res + [int(t[0], 16), FLAGNAME.get(t[1], 99)]
    for tok in t:
        if op in BYTES_OUT or op.startswith('ark.ser_flags'): res += list(bytes.fromhex(tok)) if tok != '-' else []
        elif ',' in tok: res += [int(x, 16) for x in tok.split(',')]
        else: res.append(int(tok, 16))
    return res

def compare(build, lines, timeout=1800):
    mlines = []; idx = []
    for i, l in enumerate(lines):
        m = to_model_line(l)
        if m is not None: mlines.append(m); idx.append(i)
    hout = harness.run_script(build, lines, timeout=timeout, env={'H_OP_TIMEOUT_MS': '5000'})
    mout = model.run_model(mlines, timeout=timeout) if mlines else []
    mism = []
    for j, i in enumerate(idx):
        try: h = canon(lines[i], hout[i])
        except Exception as e: h = ['UNPARSED', hout[i]]
        if h == ['UNSUPPORTED']: continue
        if h != mout[j]:
            mism.append({'build': build, 'line': lines[i], 'implementation': hout[i], 'model': mout[j], 'implementation_canonical': h})
    return len(idx), mism, hout, len(lines) - len(idx)
