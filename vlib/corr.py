"""Correspondence between the implementation (harness, protocol lines) and the Coq model (extracted op tables)."""
import re
from .core import *
from . import model, harness
from .gen import Q

_sigs = {}
def sigs():
    if not _sigs:
        ok, o = model.build()
        if not ok: raise RuntimeError('model build failed:\n' + o[-3000:])
        rc, out = run([model.MODEL_BIN, '--list'], timeout=60)
        for l in out.split('\n'):
            t = l.split(' ')
            if len(t) >= 2 and t[0] in ('0', '1'): _sigs[(int(t[0]), t[1])] = t[2] if len(t) > 2 else ''
    return _sigs

BUILD_ID = {'ark': 0, 'min': 1}
BYTES_ARG = re.compile(r'^(el\.dec|el\.deser|af\.deser|enc\.deser|af\.from_random_bytes|el\.rand|af\.rand)')
BYTES_RES = {'el.enc', 'el.enc.from_elem', 'el.enc.from_ref', 'el.enc.arr_from', 'el.ser', 'af.ser', 'el.hash', 'af.hash', 'el.ser_uncompressed', 'af.ser_uncompressed'}
ERRCODE = {'InvalidEncoding': 1, 'InvalidSliceLength': 2, 'Ser:InvalidData': 1, 'Ser:IoError': 3}

def hexs(s): return [int(x, 16) for x in s.split(',')] if s != '-' else []
def parse_elem(tok): return hexs(tok)

def to_model_line(build, line):
    """protocol line -> model line ('<build> <op> ints...'), or None if the op is not in the model's table"""
    t = line.split()
    op = t[0]; kinds = sigs().get((BUILD_ID[build], op))
    if kinds is None: return None
    ints = []; args = t[1:]
    if len(args) != len(kinds): return None
    for k, a in zip(kinds, args):
        if k in 'EA': ints += hexs(a)
        elif k == 'F': ints.append(int(a, 16))
        elif k == 'L':
            if BYTES_ARG.match(op):
                b = bytes.fromhex(a) if a != '-' else b''
                ints += [len(b)] + list(b)
            elif op == 'el.msm_vartime':
                l = [int(x, 16) for x in a.split(';')] if a != '-' else []
                ints += [len(l)] + l
            else:
                l = hexs(a); ints += [len(l)] + l
        elif k in 'XY':
            l = [hexs(x) for x in a.split(';')] if a != '-' else []
            ints.append(len(l))
            for e in l: ints += e
    return '%d %s %s' % (BUILD_ID[build], op, ' '.join(str(i) for i in ints))

def canon(op, out):
    """harness output line -> list of ints in the model's output convention"""
    out = out.strip()
    if out == 'PANIC': return [-7]
    if out in ('UNSUPPORTED', 'BADINPUT', 'CRASH', 'TIMEOUT'): return [out]
    t = out.split()
    res = []
    if t[0] in ('OK', 'SOME'):
        if op not in BYTES_RES: res.append(1)     # el.ser/af.ser: infallible writers, the model returns the bytes
        t = t[1:]
    elif t[0] == 'ERR': return [0, ERRCODE.get(t[1], 99)]
    elif t[0] == 'NONE': return [0]
    for tok in t:
        if op in BYTES_RES:
            res += list(bytes.fromhex(tok)) if tok != '-' else []
        elif ';' in tok or ',' in tok:
            for e in tok.split(';'): res += hexs(e)
        elif tok == '-': pass
        else:
            res.append(int(tok, 16))
    return res

def proj_equal(a, b):
    """two (X,Y,Z,T) int quadruples denote the same extended point (same affine point, T consistent)"""
    if len(a) != 4 or len(b) != 4: return False
    X1, Y1, Z1, T1 = a; X2, Y2, Z2, T2 = b
    if Z1 % Q == 0 or Z2 % Q == 0: return a == b
    return (X1 * Z2 - X2 * Z1) % Q == 0 and (Y1 * Z2 - Y2 * Z1) % Q == 0 and (T1 * Z1 - X1 * Y1) % Q == 0 and (T2 * Z2 - X2 * Y2) % Q == 0

PROJECTIVE_OK = {'el.msm', 'el.msm_unchecked'}   # ops whose internal representative is not modelled exactly

def compare(build, lines, timeout=1800):
    """Run protocol lines on implementation and model.  Returns (n_compared, mismatches, impl_outputs, skipped)"""
    mlines = []; idx = []
    for i, l in enumerate(lines):
        if '$' in l: continue
        m = to_model_line(build, l)
        if m is not None: mlines.append(m); idx.append(i)
    hout = harness.run_script(build, lines, timeout=timeout)
    mout = model.run_model(mlines, timeout=timeout) if mlines else []
    mism = []
    for j, i in enumerate(idx):
        op = lines[i].split()[0]
        h = canon(op, hout[i]); m = mout[j]
        if h != m:
            if op in PROJECTIVE_OK and proj_equal(h, m): continue
            mism.append({'build': build, 'line': lines[i], 'implementation': hout[i], 'model': m, 'implementation_canonical': h})
    return len(idx), mism, hout, len(lines) - len(idx)
